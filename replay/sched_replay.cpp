// Interleaving replayer: drives counterexample schedules on the REAL thread/epoch/lock code through the
// atomic-interposition shim (g++ -include atomic_shim.hpp ...).  Built with -DDBGROUP_MAX_THREAD_NUM=1|2 where the
// scenario needs an id collision.
//   sched_replay <scenario>
// exit 0: property held in this schedule; 1: "REPLAY-FAIL: ..." ; 3: unknown scenario
#include <atomic>
#include <chrono>
#include <cstdio>
#include <cstdlib>
#include <memory>
#include <string>
#include <thread>
#include <vector>

#include "dbgroup/lock/mcs_lock.hpp"
#include "dbgroup/thread/epoch_manager.hpp"
#include "dbgroup/thread/id_manager.hpp"
#include "sched.hpp"

using dbgroup::thread::EpochManager;
using dbgroup::thread::IDManager;

static int failures = 0;
extern std::atomic<long> *g_node_counter;
#define FAIL(...) do { ++failures; std::printf("REPLAY-FAIL: "); std::printf(__VA_ARGS__); std::printf("\n"); } while (0)

static std::atomic<int> stage{0};
static void WaitStage(int s) { while (stage.load() < s) std::this_thread::yield(); }

// C15: thread A is preempted in its exit path right after it released its reservation flag; thread B is given the
// same id while A's heartbeat is still unexpired.                     (build: DBGROUP_MAX_THREAD_NUM=1)
static int
IdExitOrder()
{
  std::weak_ptr<size_t> hb_a;
  size_t id_a = 99, id_b = 98;
  bool a_unexpired_when_b_owns = false;
  // A: GetThreadID = load + exchange (2 ops); thread exit: ~HeartBeater store (1 op), then HOLD.
  // B: load + exchange (2 ops).  A last entry for a thread that never runs keeps A held until Finish().
  vsched::Start({{0, 3, true}, {1, 2, false}, {7, 1, false}});
  std::thread a([&] {
    vsched::Register(0);
    id_a = IDManager::GetThreadID();
    hb_a = IDManager::GetHeartBeat();
    stage.store(1);
  });
  WaitStage(1);
  std::thread b([&] {
    vsched::Register(1);
    id_b = IDManager::GetThreadID();
    a_unexpired_when_b_owns = !hb_a.expired();
    stage.store(2);
    // keep the id until the main thread has looked
    WaitStage(3);
  });
  WaitStage(2);
  std::printf("A got id %zu, B got id %zu while A's heartbeat was %s\n", id_a, id_b, a_unexpired_when_b_owns ? "UNEXPIRED" : "expired");
  if (id_a == id_b && a_unexpired_when_b_owns) FAIL("two threads hold id %zu with an unexpired heartbeat of the earlier owner (exit path: flag released before the heartbeat expired)", id_a);
  vsched::Finish();
  stage.store(3);
  a.join();
  b.join();
  return failures ? 1 : 0;
}

// C17: a worker is stalled between the load and the store of Epoch::EnterEpoch while the coordinator advances the
// epoch across list-node boundaries; the list handed to the guard holder is then not the list of its own epoch.
static int
EnterEpochStall()
{
  EpochManager mgr{};
  size_t guard_epoch = 0, list_front = 0, list_size = 0;
  bool descending = true, has_prev = true;
  // start in the middle of a node that is neither the first nor the last of the chain (epoch 700 lies in [512, 768))
  for (int i = 0; i < 444; ++i) mgr.ForwardGlobalEpoch();
  // W: GetThreadID = load + exchange on the id flags (2 ops), GetCurrentEpoch load (1 op); HOLD before the store
  vsched::Start({{0, 3, true}, {7, 1, false}});
  std::thread w([&] {
    vsched::Register(0);
    auto &&[guard, list] = mgr.GetProtectedEpochs();
    guard_epoch = guard.GetProtectedEpoch();
    list_size = list.size();
    list_front = list.empty() ? 0 : list.front();
    for (size_t i = 1; i < list.size(); ++i) descending = descending && list[i - 1] > list[i];
    has_prev = guard_epoch <= EpochManager::kInitialEpoch || (list.size() > 1 && list[1] == guard_epoch - 1);
    stage.store(1);
  });
  while (vsched::Pos() < 1) std::this_thread::yield();
  for (int i = 0; i < 600; ++i) mgr.ForwardGlobalEpoch();
  vsched::Finish();
  WaitStage(1);
  w.join();
  std::printf("guard reports epoch %zu; returned list: size %zu, first element %zu\n", guard_epoch, list_size, list_front);
  if (list_front != guard_epoch) FAIL("GetProtectedEpochs returned a list whose first element (%zu) is not the epoch the guard reports (%zu)", list_front, guard_epoch);
  if (!descending) FAIL("returned list is not strictly descending");
  if (!has_prev) FAIL("returned list does not contain the preceding epoch");
  return failures ? 1 : 0;
}

// C17: a worker is stalled inside GetProtectedEpochs AFTER it published its epoch and before the chain lookup; the
// coordinator advances across two node boundaries while another guard keeps an intermediate node linked.  The list
// handed to the worker must still be the one of its own epoch.
static int
LookupStall()
{
  EpochManager mgr{};
  size_t guard_epoch = 0, list_front = 0, list_size = 0;
  bool descending = true, has_prev = true, stable = true;
  for (int i = 0; i < 444; ++i) mgr.ForwardGlobalEpoch();  // epoch 700, node [512, 768)
  // W: GetThreadID (2 ops), EnterEpoch = load + store (2 ops); HOLD before the next atomic operation (the lookup)
  vsched::Start({{0, 4, true}, {7, 1, false}});
  std::vector<size_t> copy;
  std::thread w([&] {
    vsched::Register(0);
    auto &&[guard, list] = mgr.GetProtectedEpochs();
    guard_epoch = guard.GetProtectedEpoch();
    list_size = list.size();
    list_front = list.empty() ? 0 : list.front();
    for (size_t i = 1; i < list.size(); ++i) descending = descending && list[i - 1] > list[i];
    has_prev = guard_epoch <= EpochManager::kInitialEpoch || (list.size() > 1 && list[1] == guard_epoch - 1);
    copy = list;
    stage.store(1);
    WaitStage(2);
    stable = (copy == list);
    stage.store(3);
  });
  while (vsched::Pos() < 1) std::this_thread::yield();
  for (int i = 0; i < 300; ++i) mgr.ForwardGlobalEpoch();  // epoch 1000, node [768, 1024)
  std::thread pin([&] {
    auto g = mgr.CreateEpochGuard();  // keeps the intermediate node linked
    WaitStage(3);
  });
  std::this_thread::sleep_for(std::chrono::milliseconds(50));
  for (int i = 0; i < 300; ++i) mgr.ForwardGlobalEpoch();  // epoch 1300, head node [1280, 1536)
  vsched::Finish();
  WaitStage(1);
  for (int i = 0; i < 700; ++i) mgr.ForwardGlobalEpoch();  // the list must stay untouched while the guard is alive
  stage.store(2);
  w.join();
  pin.join();
  std::printf("guard reports epoch %zu; returned list: size %zu, first element %zu\n", guard_epoch, list_size, list_front);
  if (list_front != guard_epoch) FAIL("GetProtectedEpochs returned a list whose first element (%zu) is not the epoch the guard reports (%zu)", list_front, guard_epoch);
  if (!descending) FAIL("returned list is not strictly descending");
  if (!has_prev) FAIL("returned list does not contain the preceding epoch");
  if (!stable) FAIL("the returned list was modified while its guard was alive");
  return failures ? 1 : 0;
}

// C02: MCSLock enqueue -- T1 is preempted between its exchange on the lock word and the plain store that records the
// predecessor flags in its own node; T2 enqueues behind it and writes its link into T1's node; T1's store erases the
// link: T1's release waits for a link that never comes, T2 waits for a hand-off that never happens.
static int
McsLostLink()
{
  dbgroup::lock::MCSLock lock{};
  std::atomic<int> done{0};
  // T1: store(own node) + exchange(lock word) = 2 ops, then HOLD.  T2: store, exchange, store, fetch_add(link) = 4 ops.
  vsched::Start({{0, 2, true}, {1, 4, false}});
  std::thread t1([&] {
    vsched::Register(0);
    { auto x = lock.LockX(); }
    done.fetch_add(1);
  });
  std::thread t2([&] {
    vsched::Register(1);
    { auto x = lock.LockX(); }
    done.fetch_add(1);
  });
  for (int i = 0; i < 300 && done.load() < 2; ++i) std::this_thread::sleep_for(std::chrono::milliseconds(10));
  if (done.load() < 2) {
    FAIL("MCSLock: after T1 was preempted between its exchange and its node store, %d of 2 LockX/unlock pairs never finished (lost hand-off: the successor's link was erased)", 2 - done.load());
    std::fflush(stdout);
    std::_Exit(1);
  }
  t1.join();
  t2.join();
  return 0;
}

// C12: one queue node leaks per round of "shared holder releases while an exclusive successor waits"
static std::atomic<long> g_live_nodes{0};
static int
McsNodeLeak()
{
  const int rounds = 200;
  {
    dbgroup::lock::MCSLock lock{};
    for (int r = 0; r < rounds; ++r) {
      auto s = lock.LockS();
      std::atomic<bool> queued{false};
      std::thread w([&] {
        queued.store(true);
        auto x = lock.LockX();  // waits behind the shared group
      });
      while (!queued.load()) std::this_thread::yield();
      std::this_thread::sleep_for(std::chrono::milliseconds(2));  // let the writer enqueue and link
      s = dbgroup::lock::MCSLock::SGuard{};                        // last shared member releases via the successor path
      w.join();
    }
  }
  const long live = g_live_nodes.load();
  std::printf("live queue nodes after %d rounds and after all worker threads exited: %ld\n", rounds, live);
  if (live > 4) FAIL("MCSLock leaks queue nodes: %ld nodes are still allocated after %d rounds although all guards were released and all worker threads exited", live, rounds);
  return failures ? 1 : 0;
}

// C04: a guard variable that is re-assigned from a new guard of the same thread (g = mgr.CreateEpochGuard()), or an
// outer guard whose thread creates and destroys a second guard, must still pin an epoch that the coordinator publishes.
static int
EpochGuardOverlap(bool nested)
{
  EpochManager mgr{};
  std::vector<size_t> lst;
  size_t reported = 0, min = 0;
  std::thread w([&] {
    auto g = mgr.CreateEpochGuard();
    const size_t first = g.GetProtectedEpoch();
    mgr.ForwardGlobalEpoch();
    if (nested) {
      auto inner = mgr.CreateEpochGuard();  // destroyed at the end of this block; g stays alive
      (void)inner;
    } else {
      g = mgr.CreateEpochGuard();  // the first grant ends, the guard now owns the second one
    }
    reported = g.GetProtectedEpoch();
    // the guard was completely created before these forwards start and is alive when they return
    for (int i = 0; i < 3; ++i) mgr.ForwardGlobalEpoch();
    min = mgr.GetMinEpoch();
    std::thread reader([&] {
      auto &&[guard, list] = mgr.GetProtectedEpochs();
      lst = list;
    });
    reader.join();
    std::printf("first guard pinned %zu; live guard now reports %zu; GetMinEpoch = %zu; published list:", first, reported, min);
    for (size_t e : lst) std::printf(" %zu", e);
    std::printf("\n");
  });
  w.join();
  bool in_list = false;
  for (size_t e : lst) in_list = in_list || e == reported;
  if (!in_list) FAIL("%s: the live guard reports epoch %zu, which is not in the protected-epoch list published for the new epoch (its protection was dropped)", nested ? "outer guard after an inner guard of the same thread was destroyed" : "g = mgr.CreateEpochGuard() over a live guard", reported);
  if (min > reported) FAIL("GetMinEpoch() = %zu exceeds the epoch %zu of a live guard", min, reported);
  return failures ? 1 : 0;
}

// C16: a guard variable that holds a grant of manager A is re-used for a grant of manager B (or receives a guard handed
// over by another thread): the overwritten grant of A ends, so after all guards are gone A publishes {current, current-1}
static int
EpochGuardForeignAssign()
{
  EpochManager a{}, b{};
  std::vector<size_t> lst;
  size_t min = 0, cur = 0;
  std::thread w([&] {
    {
      auto g = a.CreateEpochGuard();
      g = b.CreateEpochGuard();  // the grant of a ends here; g now owns a grant of b
    }
    for (int i = 0; i < 3; ++i) a.ForwardGlobalEpoch();
    min = a.GetMinEpoch();
    cur = a.GetCurrentEpoch();
    auto &&[guard, list] = a.GetProtectedEpochs();
    lst = list;
  });
  w.join();
  std::printf("manager a: current %zu, GetMinEpoch %zu, published list:", cur, min);
  for (size_t e : lst) std::printf(" %zu", e);
  std::printf("\n");
  if (lst.size() != 2 || lst[0] != cur || lst[1] != cur - 1) FAIL("after all guards are gone the published list is not exactly {current, current-1}: an overwritten guard still pins epoch %zu", lst.empty() ? 0 : lst.back());
  if (min != cur - 1) FAIL("after all guards are gone GetMinEpoch() = %zu, expected %zu", min, cur - 1);
  return failures ? 1 : 0;
}

int
main(int argc, char **argv)
{
  if (argc < 2) return 3;
  const std::string sc = argv[1];
  int rc = 3;
  if (sc == "id-exit-order") rc = IdExitOrder();
  if (sc == "enter-epoch-stall") rc = EnterEpochStall();
  if (sc == "lookup-stall") rc = LookupStall();
  if (sc == "epoch-guard-foreign-assign") rc = EpochGuardForeignAssign();
  if (sc == "epoch-guard-reassign") rc = EpochGuardOverlap(false);
  if (sc == "epoch-nested-guard") rc = EpochGuardOverlap(true);
  if (sc == "mcs-lost-link") rc = McsLostLink();
  if (sc == "mcs-node-leak") rc = McsNodeLeak();
  std::fflush(stdout);
  std::_Exit(rc);
}

// allocation counting for queue nodes (MCSLock objects are 8 bytes, allocated with plain new/delete)
std::atomic<long> *g_node_counter = nullptr;
void *operator new(std::size_t n)
{
  void *p = std::malloc(n ? n : 1);
  if (p == nullptr) std::abort();
  if (n == sizeof(dbgroup::lock::MCSLock)) g_live_nodes.fetch_add(1, std::memory_order_relaxed);
  return p;
}
void operator delete(void *p) noexcept { std::free(p); }
void operator delete(void *p, std::size_t n) noexcept
{
  if (n == sizeof(dbgroup::lock::MCSLock) && p != nullptr) g_live_nodes.fetch_sub(1, std::memory_order_relaxed);
  std::free(p);
}
