// Counterexample SEARCH on the real lock classes (replay only; never a verdict by itself).
//   lock_search <pess|opt|mcs> <seed> <seconds>
// Seeded random client programs (3-5 threads, S/SIX/X sections, upgrade/downgrade chains, guard moves, and for
// OptimisticLock version reads, TryLock* and PrepareRead) run on the unmodified sources through the atomic shim with a
// pseudo-random perturbation at every atomic operation.  The oracle is the property text:
//   C01/C10  holders of conflicting modes never overlap (counters updated after an acquisition returned and before a
//            release starts, so every observed overlap is real); a conversion never leaves a gap;
//   C01/C03/C13  data written only under X is never seen half-updated under S/SIX/X or by a validated optimistic read;
//   C07      guards own exactly when they must;  C02  every request returns and the lock is free at the end.
// exit 0: nothing found within the budget; 1: "REPLAY-FAIL: ..."
#include <atomic>
#include <chrono>
#include <cstdio>
#include <cstdlib>
#include <mutex>
#include <string>
#include <thread>
#include <utility>
#include <vector>

#include "dbgroup/lock/mcs_lock.hpp"
#include "dbgroup/lock/optimistic_lock.hpp"
#include "dbgroup/lock/pessimistic_lock.hpp"
#include "sched.hpp"

using Clock = std::chrono::steady_clock;
static std::atomic<int> failures{0};
static std::mutex out_mtx;
#define FAIL(...) do { std::lock_guard<std::mutex> lk_{out_mtx}; if (failures.fetch_add(1) < 5) { std::printf("REPLAY-FAIL: "); std::printf(__VA_ARGS__); std::printf("\n"); std::fflush(stdout); } } while (0)

struct Oracle {
  std::atomic<int> s{0}, six{0}, x{0};
  std::atomic<long> a{0}, b{0};  // written only under X (a first, then b); equal outside an X section
  void EnterS(const char *how)
  {
    s.fetch_add(1);
    if (x.load() > 0) FAIL("%s: a shared grant was obtained while another thread holds X", how);
  }
  void EnterSIX(const char *how)
  {
    if (six.fetch_add(1) > 0) FAIL("%s: two SIX grants at the same time", how);
    if (x.load() > 0) FAIL("%s: SIX was obtained while another thread holds X", how);
  }
  void EnterX(const char *how, bool from_six)
  {
    if (x.fetch_add(1) > 0) FAIL("%s: two X grants at the same time", how);
    if (s.load() > 0) FAIL("%s: X was obtained while a shared grant is held", how);
    if (six.load() > (from_six ? 1 : 0)) FAIL("%s: X was obtained while another thread holds SIX", how);
  }
  void CheckData(const char *how)
  {
    const long va = a.load(std::memory_order_relaxed), vb = b.load(std::memory_order_relaxed);
    if (va != vb) FAIL("%s: data written only under X was observed half-updated (%ld / %ld)", how, va, vb);
  }
  void Write()
  {
    const long v = a.load(std::memory_order_relaxed) + 1;
    a.store(v, std::memory_order_relaxed);
    for (int i = 0; i < 20; ++i) std::this_thread::yield();
    b.store(v, std::memory_order_relaxed);
  }
};

static unsigned
Next(unsigned long long &st)
{
  st ^= st << 13;
  st ^= st >> 7;
  st ^= st << 17;
  return static_cast<unsigned>(st >> 16);
}

template <class Lock, bool kOpt, bool kNest>
static void
Worker(Lock *lock, Oracle *o, int tid, unsigned salt, int ops, std::atomic<int> *done)
{
  vsched::RegisterRandom(tid, salt);
  unsigned long long st = 0x2545F4914F6CDD1DULL ^ (static_cast<unsigned long long>(salt) << 20) ^ static_cast<unsigned>(tid);
  for (int i = 0; i < ops && failures.load() == 0; ++i) {
    const unsigned r = Next(st) % (kOpt ? 12 : 7);
    if (r == 0 || r == 1) {
      auto g = lock->LockS();
      if (!g) FAIL("LockS returned a guard that does not own its grant");
      o->EnterS("LockS");
      o->CheckData("under S");
      if (r == 1) {
        auto g2 = std::move(g);  // move construction: the grant travels, the source owns nothing
        if (g || !g2) FAIL("move construction of an S guard: source owns=%d, target owns=%d", static_cast<int>(static_cast<bool>(g)), static_cast<int>(static_cast<bool>(g2)));
        o->CheckData("under S (moved guard)");
        o->s.fetch_sub(1);
      } else {
        o->s.fetch_sub(1);
      }
    } else if (r == 2) {
      auto g = lock->LockSIX();
      if (!g) FAIL("LockSIX returned a guard that does not own its grant");
      o->EnterSIX("LockSIX");
      o->CheckData("under SIX");
      o->six.fetch_sub(1);
    } else if (r == 3) {
      auto g = lock->LockX();
      if (!g) FAIL("LockX returned a guard that does not own its grant");
      o->EnterX("LockX", false);
      o->CheckData("under X");
      o->Write();
      o->x.fetch_sub(1);
    } else if (r == 4) {
      // SIX -> X (-> SIX -> X): what was read under SIX is still true after the upgrade
      auto six = lock->LockSIX();
      o->EnterSIX("LockSIX");
      const long seen = o->a.load(std::memory_order_relaxed);
      auto x = six.UpgradeToX();
      if (six || !x) FAIL("UpgradeToX: source owns=%d, result owns=%d", static_cast<int>(static_cast<bool>(six)), static_cast<int>(static_cast<bool>(x)));
      o->EnterX("UpgradeToX", true);
      o->six.fetch_sub(1);
      if (o->a.load(std::memory_order_relaxed) != seen) FAIL("UpgradeToX: data read under SIX changed before the upgrade returned (gap)");
      o->CheckData("after UpgradeToX");
      o->Write();
      if (Next(st) & 1U) {
        const long mine = o->a.load(std::memory_order_relaxed);
        // bookkeeping BEFORE the call: once the downgrade has happened, shared requests are legitimately granted
        if (o->six.fetch_add(1) > 0) FAIL("DowngradeToSIX: another thread holds SIX while X is held");
        o->x.fetch_sub(1);
        auto six2 = x.DowngradeToSIX();
        if (x || !six2) FAIL("DowngradeToSIX: source owns=%d, result owns=%d", static_cast<int>(static_cast<bool>(x)), static_cast<int>(static_cast<bool>(six2)));
        auto x2 = six2.UpgradeToX();
        o->EnterX("UpgradeToX after DowngradeToSIX", true);
        o->six.fetch_sub(1);
        if (o->a.load(std::memory_order_relaxed) != mine) FAIL("X -> SIX -> X chain: another writer got in between");
        o->Write();
        o->x.fetch_sub(1);
      } else {
        o->x.fetch_sub(1);
      }
    } else if (r == 5) {
      auto x = lock->LockX();
      o->EnterX("LockX", false);
      o->Write();
      const long mine = o->a.load(std::memory_order_relaxed);
      if (o->six.fetch_add(1) > 0) FAIL("DowngradeToSIX: another thread holds SIX while X is held");
      o->x.fetch_sub(1);
      auto six = x.DowngradeToSIX();
      o->CheckData("under SIX after DowngradeToSIX");
      for (int k = 0; k < 10; ++k) std::this_thread::yield();
      if (o->a.load(std::memory_order_relaxed) != mine) FAIL("DowngradeToSIX: another writer got in while the SIX grant obtained from X was held");
      o->six.fetch_sub(1);
    } else if (r == 6) {
      if constexpr (kNest) {
        // move assignment over an owning guard releases the overwritten grant exactly once (two shared grants of one
        // thread; only for the classes where a shared request never waits for anything but an X holder)
        auto g1 = lock->LockS();
        o->EnterS("LockS");
        auto g2 = lock->LockS();
        o->EnterS("LockS");
        o->s.fetch_sub(1);
        g1 = std::move(g2);
        if (!g1 || g2) FAIL("move assignment of S guards: target owns=%d, source owns=%d", static_cast<int>(static_cast<bool>(g1)), static_cast<int>(static_cast<bool>(g2)));
        o->CheckData("under S (assigned guard)");
        o->s.fetch_sub(1);
      } else {
        auto g1 = lock->LockS();
        o->EnterS("LockS");
        auto g2 = std::move(g1);
        g1 = std::move(g2);  // assignment into a moved-from guard
        if (!g1 || g2) FAIL("move assignment of S guards: target owns=%d, source owns=%d", static_cast<int>(static_cast<bool>(g1)), static_cast<int>(static_cast<bool>(g2)));
        o->CheckData("under S (assigned guard)");
        o->s.fetch_sub(1);
      }
    }
    if constexpr (kOpt) {
      if (r == 7) {
        auto og = lock->GetVersion();
        const long va = o->a.load(std::memory_order_relaxed);
        for (int k = 0; k < 5; ++k) std::this_thread::yield();
        const long vb = o->b.load(std::memory_order_relaxed);
        if (og.VerifyVersion() && va != vb) FAIL("VerifyVersion succeeded for a half-updated read (%ld / %ld)", va, vb);
      } else if (r == 8) {
        auto og = lock->GetVersion();
        const long va = o->a.load(std::memory_order_relaxed);
        auto g = og.TryLockS();
        if (g) {
          o->EnterS("TryLockS");
          if (o->a.load(std::memory_order_relaxed) != va) FAIL("TryLockS returned an owning guard although an exclusive section was committed since the version was obtained");
          o->CheckData("under S (TryLockS)");
          o->s.fetch_sub(1);
        }
      } else if (r == 9) {
        auto og = lock->GetVersion();
        const long va = o->a.load(std::memory_order_relaxed);
        auto g = og.TryLockX();
        if (g) {
          o->EnterX("TryLockX", false);
          if (o->a.load(std::memory_order_relaxed) != va) FAIL("TryLockX returned an owning guard although an exclusive section was committed since the version was obtained");
          o->Write();
          o->x.fetch_sub(1);
        }
      } else if (r == 10) {
        auto og = lock->GetVersion();
        const long va = o->a.load(std::memory_order_relaxed);
        auto g = og.TryLockSIX();
        if (g) {
          o->EnterSIX("TryLockSIX");
          if (o->a.load(std::memory_order_relaxed) != va) FAIL("TryLockSIX returned an owning guard although an exclusive section was committed since the version was obtained");
          o->six.fetch_sub(1);
        }
      } else if (r == 11) {
        auto cg = lock->PrepareRead();
        const bool owns = static_cast<bool>(cg);
        if (owns) {
          o->s.fetch_add(1);
          if (o->x.load() > 0) FAIL("PrepareRead returned a shared grant while another thread holds X");
        }
        const long va = o->a.load(std::memory_order_relaxed);
        for (int k = 0; k < 5; ++k) std::this_thread::yield();
        const long vb = o->b.load(std::memory_order_relaxed);
        const bool ok = cg.VerifyVersion();
        if (owns && !ok) FAIL("VerifyVersion failed for a CompositeGuard that owns a shared grant");
        if (ok && va != vb) FAIL("PrepareRead/VerifyVersion validated a half-updated read (%ld / %ld)", va, vb);
        if (owns) o->s.fetch_sub(1);
      }
    }
  }
  vsched::my_tid = -1;
  done->fetch_add(1);
}

template <class Lock, bool kOpt, bool kNest>
static int
Search(const char *name, unsigned seed, int seconds)
{
  vsched::random_seed.store(seed | 1U);
  const auto t_end = Clock::now() + std::chrono::seconds(seconds);
  unsigned long long st = seed * 6364136223846793005ULL + 1442695040888963407ULL;
  long programs = 0;
  while (Clock::now() < t_end && failures.load() == 0) {
    ++programs;
    auto *lock = new Lock{};
    auto *o = new Oracle{};
    const int n = 3 + static_cast<int>(Next(st) % 3);
    const int ops = 20 + static_cast<int>(Next(st) % 200);
    std::atomic<int> done{0};
    std::vector<std::thread> ths;
    for (int i = 0; i < n; ++i) ths.emplace_back(Worker<Lock, kOpt, kNest>, lock, o, i, static_cast<unsigned>(programs * 8 + i) ^ (seed << 8), ops, &done);
    const auto t0 = Clock::now();
    while (done.load() < n && Clock::now() - t0 < std::chrono::seconds(20)) std::this_thread::sleep_for(std::chrono::milliseconds(1));
    if (done.load() < n) {
      FAIL("%s: %d of %d threads never finished their requests (deadlock or lost hand-off), program %ld", name, n - done.load(), n, programs);
      std::fflush(stdout);
      std::_Exit(1);
    }
    for (auto &t : ths) t.join();
    // after the last guard is gone the lock is free again
    std::atomic<bool> got{false};
    std::thread fin([&] {
      auto x = lock->LockX();
      got.store(static_cast<bool>(x));
    });
    const auto t1 = Clock::now();
    while (!got.load() && Clock::now() - t1 < std::chrono::seconds(5)) std::this_thread::sleep_for(std::chrono::milliseconds(1));
    if (!got.load()) {
      FAIL("%s: after all guards were released a fresh LockX does not return (the lock is not free), program %ld", name, programs);
      std::fflush(stdout);
      std::_Exit(1);
    }
    fin.join();
    if (o->s.load() != 0 || o->six.load() != 0 || o->x.load() != 0) FAIL("harness bookkeeping is unbalanced (not a property verdict)");
    delete o;
    delete lock;
  }
  std::printf("lock-search %s: %ld programs, seed %u: %s\n", name, programs, seed, failures.load() ? "FAILED" : "nothing found");
  return failures.load() ? 1 : 0;
}

int
main(int argc, char **argv)
{
  if (argc < 4) return 3;
  const std::string cls = argv[1];
  const unsigned seed = static_cast<unsigned>(std::strtoul(argv[2], nullptr, 10));
  const int seconds = std::atoi(argv[3]);
  int rc = 3;
  if (cls == "pess") rc = Search<dbgroup::lock::PessimisticLock, false, true>("PessimisticLock", seed, seconds);
  if (cls == "opt") rc = Search<dbgroup::lock::OptimisticLock, true, true>("OptimisticLock", seed, seconds);
  if (cls == "mcs") rc = Search<dbgroup::lock::MCSLock, false, false>("MCSLock", seed, seconds);
  std::fflush(stdout);
  std::_Exit(rc);
}
