// Counterexample SEARCH on the real thread-id / epoch code (replay only; never a verdict by itself).
// When a contract obligation fails and no scripted scenario reproduces it, the checks run these bounded random
// searches: histories are drawn from a seeded generator, executed on the unmodified sources (atomic shim + random
// perturbation at every atomic operation) and judged by the property statement itself.
//   search_replay id-search <seed> <seconds>       (C05, C14, C15; build with a small DBGROUP_MAX_THREAD_NUM)
//   search_replay epoch-search <seed> <seconds>    (C04, C16, C17, C20; sequential histories, ids are reused)
// exit 0: nothing found within the budget; 1: "REPLAY-FAIL: ..." with the failing history
#include <atomic>
#include <chrono>
#include <condition_variable>
#include <csignal>
#include <unistd.h>
#include <cstdio>
#include <cstdlib>
#include <cstring>
#include <functional>
#include <memory>
#include <mutex>
#include <new>
#include <optional>
#include <set>
#include <string>
#include <thread>
#include <vector>

#include "dbgroup/thread/epoch_manager.hpp"
#include "dbgroup/thread/id_manager.hpp"
#include "sched.hpp"

using dbgroup::thread::EpochManager;
using dbgroup::thread::IDManager;
using Clock = std::chrono::steady_clock;

static int failures = 0;
static std::mutex out_mtx;
#define FAIL(...) do { std::lock_guard<std::mutex> lk_{out_mtx}; ++failures; std::printf("REPLAY-FAIL: "); std::printf(__VA_ARGS__); std::printf("\n"); std::fflush(stdout); } while (0)

static unsigned long long rng_state = 1;
static unsigned
Rand(unsigned n)
{
  rng_state ^= rng_state << 13;
  rng_state ^= rng_state >> 7;
  rng_state ^= rng_state << 17;
  return static_cast<unsigned>((rng_state >> 16) % n);
}

/* ---------------------------------------------------------------- thread ids */

constexpr size_t kCap = DBGROUP_MAX_THREAD_NUM;
static std::mutex tab_mtx;
static int owners[kCap + 1];
static std::weak_ptr<size_t> last_hb[kCap + 1];
static std::atomic<int> holding{0};

// one thread: obtain an id, check the statement of C05/C15 against the table of current holders, stay for a while
static void
IdThread(int tid, unsigned salt, int stay_us, std::atomic<int> *returned, std::atomic<int> *release)
{
  vsched::RegisterRandom(tid, salt);
  const size_t id = IDManager::GetThreadID();
  returned->fetch_add(1);
  auto hb = IDManager::GetHeartBeat();
  if (id >= kCap) {
    FAIL("GetThreadID returned %zu, outside [0, %zu)", id, kCap);
    return;
  }
  {
    std::lock_guard<std::mutex> lk{tab_mtx};
    if (++owners[id] > 1) FAIL("id %zu is held by %d running threads at the same time (capacity %zu)", id, owners[id], kCap);
    if (!last_hb[id].expired()) FAIL("id %zu was handed to a new thread while a heartbeat of its earlier owner is still unexpired", id);
    last_hb[id] = hb;
  }
  if (stay_us > 0) std::this_thread::sleep_for(std::chrono::microseconds(stay_us));
  while (release->load() == 0) std::this_thread::yield();  // barrier waves: hold the id until every thread of the wave has one
  if (IDManager::GetThreadID() != id) FAIL("GetThreadID is not stable: first %zu, later %zu", id, IDManager::GetThreadID());
  if (hb.expired() || IDManager::GetHeartBeat().expired()) FAIL("heartbeat of a running thread (id %zu) is expired", id);
  {
    std::lock_guard<std::mutex> lk{tab_mtx};
    --owners[id];
  }
  vsched::my_tid = -1;  // the exit path runs unperturbed unless the round asks otherwise
  if (salt & 1U) vsched::RegisterRandom(tid, salt + 7);
}

static int
IdSearch(unsigned seed, int seconds)
{
  vsched::random_seed.store(seed | 1U);
  const auto t_end = Clock::now() + std::chrono::seconds(seconds);
  long rounds = 0;
  while (Clock::now() < t_end && failures == 0) {
    ++rounds;
    // a wave of n threads; at most kCap of them hold an id at the same time (the others start after a holder left)
    // every fourth wave has an observer: the main thread promotes one heartbeat (weak_ptr::lock) and keeps the
    // strong reference across that thread's exit; the id must be given back all the same (C14)
    const bool observer = (rounds & 3) == 1;
    const int n = observer ? 1 + static_cast<int>(Rand(static_cast<unsigned>(kCap))) : 1 + static_cast<int>(Rand(static_cast<unsigned>(kCap) + 2));
    std::atomic<int> returned{0};
    // every other wave is a barrier wave: min(n, capacity) threads HOLD their ids at the same time
    std::atomic<int> release{(rounds & 1) ? 0 : 1};
    std::vector<std::thread> ths;
    std::vector<std::weak_ptr<size_t>> hbs;
    const int first = std::min<int>(n, static_cast<int>(kCap));
    for (int i = 0; i < first; ++i) ths.emplace_back(IdThread, i, static_cast<unsigned>(rounds * 16 + i), static_cast<int>(Rand(300)), &returned, &release);
    // C14: with at most kCap simultaneous holders every call returns
    const auto t0 = Clock::now();
    while (returned.load() < first && Clock::now() - t0 < std::chrono::seconds(5)) std::this_thread::yield();
    if (returned.load() < first) {
      FAIL("GetThreadID did not return within 5 s for %d of %d threads although at most %zu threads hold ids (capacity lost), round %ld", first - returned.load(), first, kCap, rounds);
      std::_Exit(1);
    }
    std::shared_ptr<size_t> promoted;
    if (observer) {
      for (int spin = 0; spin < 100000 && !promoted; ++spin) {
        std::lock_guard<std::mutex> lk{tab_mtx};
        for (size_t i = 0; i < kCap && !promoted; ++i) promoted = last_hb[i].lock();
      }
    }
    release.store(1);
    // latecomers (beyond the capacity or after exits): they may have to wait for a holder to exit, never longer
    for (int i = first; i < n; ++i) ths.emplace_back(IdThread, i, static_cast<unsigned>(rounds * 16 + i), static_cast<int>(Rand(100)), &returned, &release);
    const auto t1 = Clock::now();
    while (returned.load() < n && Clock::now() - t1 < std::chrono::seconds(5)) std::this_thread::yield();
    if (returned.load() < n) {
      FAIL("GetThreadID did not return within 5 s for a thread that found all ids taken although the holders exited, round %ld", rounds);
      std::_Exit(1);
    }
    for (auto &t : ths) t.join();
    {
      std::lock_guard<std::mutex> lk{tab_mtx};
      for (size_t i = 0; i < kCap; ++i) {
        if (promoted && i == *promoted) continue;  // kept alive by the observer, not by the library
        if (!last_hb[i].expired()) FAIL("heartbeat of id %zu is not expired although its thread has exited", i);
      }
      if (promoted) {
        const size_t i = *promoted;
        promoted.reset();
        if (!last_hb[i].expired()) FAIL("heartbeat of id %zu is not expired although its thread has exited and the observer dropped its reference", i);
      }
    }
  }
  std::printf("id-search: %ld waves, capacity %zu, seed %u: %s\n", rounds, kCap, seed, failures ? "FAILED" : "nothing found");
  return failures ? 1 : 0;
}

/* ---------------------------------------------------------------- epochs */

static std::atomic<long> g_nodes{0};
static std::atomic<long> g_big_allocs{0};

struct Worker {
  std::thread th;
  std::mutex m;
  std::condition_variable cv;
  int cmd = 0;  // 0 idle, 1 create, 2 create+list, 3 destroy, 4 move-assign a fresh guard over the live one, 9 exit
  bool done = true;
  bool alive = false;
  // state owned by the worker, read by the main thread only between commands
  bool has_guard = false;
  size_t epoch = 0;
  const std::vector<size_t> *list = nullptr;
  std::vector<size_t> copy;
  std::string err;
};

static void
WorkerMain(EpochManager *mgr, Worker *w)
{
  std::optional<dbgroup::thread::EpochGuard> g;
  while (true) {
    int c;
    {
      std::unique_lock<std::mutex> lk{w->m};
      w->cv.wait(lk, [&] { return w->cmd != 0; });
      c = w->cmd;
    }
    if (c == 1) {
      g.emplace(mgr->CreateEpochGuard());
      w->has_guard = true;
      w->epoch = g->GetProtectedEpoch();
      w->list = nullptr;
    } else if (c == 2) {
      auto &&[guard, list] = mgr->GetProtectedEpochs();
      w->epoch = guard.GetProtectedEpoch();
      w->list = &list;
      w->copy = list;
      g.emplace(std::move(guard));
      w->has_guard = true;
    } else if (c == 3) {
      if (w->list != nullptr && *w->list != w->copy) w->err = "the list handed out by GetProtectedEpochs changed while its guard was alive";
      g.reset();
      w->has_guard = false;
      w->list = nullptr;
    } else if (c == 4) {
      if (w->list != nullptr && *w->list != w->copy) w->err = "the list handed out by GetProtectedEpochs changed while its guard was alive";
      *g = mgr->CreateEpochGuard();  // the old grant ends, the new one begins
      w->epoch = g->GetProtectedEpoch();
      w->list = nullptr;
    }
    {
      std::lock_guard<std::mutex> lk{w->m};
      w->cmd = 0;
      w->done = true;
    }
    w->cv.notify_all();
    if (c == 9) return;
  }
}

static void
Command(Worker &w, int c)
{
  {
    std::lock_guard<std::mutex> lk{w.m};
    w.cmd = c;
    w.done = false;
  }
  w.cv.notify_all();
  std::unique_lock<std::mutex> lk{w.m};
  w.cv.wait(lk, [&] { return w.done; });
}

static std::string
Show(const std::vector<size_t> &v)
{
  std::string s = "{";
  for (size_t i = 0; i < v.size() && i < 12; ++i) s += (i ? "," : "") + std::to_string(v[i]);
  if (v.size() > 12) s += ",...";
  return s + "}";
}

static int
EpochSearch(unsigned seed, int seconds)
{
  rng_state = seed * 2654435761ULL + 88172645463325252ULL;
  const auto t_end = Clock::now() + std::chrono::seconds(seconds);
  constexpr int kWorkers = static_cast<int>(kCap) - 1;  // the main thread needs an id of its own
  long histories = 0;
  while (Clock::now() < t_end && failures == 0) {
    ++histories;
    std::string trace;
    const long nodes_before = g_nodes.load();
    {
      EpochManager mgr{};
      std::vector<std::unique_ptr<Worker>> ws;
      for (int i = 0; i < kWorkers; ++i) ws.emplace_back(new Worker{});
      size_t cur = EpochManager::kInitialEpoch;
      if (mgr.GetCurrentEpoch() != cur) FAIL("GetCurrentEpoch starts at %zu, documented initial epoch is %zu", mgr.GetCurrentEpoch(), cur);
      const int len = 20 + static_cast<int>(Rand(120));
      const int style = static_cast<int>(Rand(4));  // 0: short pins, 1: long pins, 2: bursts across node boundaries, 3: mixed
      for (int step = 0; step < len && failures == 0; ++step) {
        const unsigned r = Rand(100);
        const int wi = static_cast<int>(Rand(kWorkers));
        Worker &w = *ws[wi];
        if (r < 45) {
          int n = 1;
          if (style >= 2 && Rand(3) == 0) n = 1 + static_cast<int>(Rand(600));
          if (style == 1 && Rand(2) == 0) n = 200 + static_cast<int>(Rand(120));
          trace += " F" + std::to_string(n);
          for (int k = 0; k < n && failures == 0; ++k) {
            mgr.ForwardGlobalEpoch();
            ++cur;
            const size_t got = mgr.GetCurrentEpoch();
            if (got != cur) FAIL("GetCurrentEpoch is %zu after a ForwardGlobalEpoch from %zu (expected %zu)", got, cur - 1, cur);
            const bool full = (k == n - 1) || Rand(16) == 0;
            if (!full) continue;
            // expected list: distinct {cur, cur-1, pinned} in descending order
            std::set<size_t, std::greater<>> exp{cur, cur - 1};
            for (auto &x : ws) {
              if (x->alive && x->has_guard) exp.insert(x->epoch);
            }
            std::vector<size_t> expv(exp.begin(), exp.end());
            const size_t min = mgr.GetMinEpoch();
            std::vector<size_t> pub;
            size_t main_epoch = 0;
            {
              auto &&[guard, list] = mgr.GetProtectedEpochs();
              main_epoch = guard.GetProtectedEpoch();
              pub = list;
            }
            if (main_epoch != cur) FAIL("a guard created after the forward reports epoch %zu, current is %zu", main_epoch, cur);
            if (pub != expv) FAIL("list published for epoch %zu is %s, expected exactly %s (pinned epochs of live guards, current and previous epoch); history:%s", cur, Show(pub).c_str(), Show(expv).c_str(), trace.c_str());
            if (min != expv.back()) FAIL("GetMinEpoch is %zu, smallest protected epoch is %zu; history:%s", min, expv.back(), trace.c_str());
            // memory: list nodes bounded by the number of distinct 256-epoch ranges in use (plus a constant)
            std::set<size_t> ranges;
            for (size_t e : expv) ranges.insert(e / EpochManager::kCapacity);
            const long live = g_nodes.load() - nodes_before;
            if (live > static_cast<long>(ranges.size()) + 2) FAIL("%ld list nodes are allocated although only %zu distinct 256-epoch ranges hold a pinned or current epoch; history:%s", live, ranges.size(), trace.c_str());
          }
        } else if (r < 65) {
          if (!w.alive) {
            w.alive = true;
            w.th = std::thread(WorkerMain, &mgr, &w);
            trace += " start" + std::to_string(wi);
          }
          if (!w.has_guard) {
            const int c = Rand(3) == 0 ? 2 : 1;
            Command(w, c);
            trace += (c == 2 ? " L" : " G") + std::to_string(wi);
            if (w.epoch != cur) FAIL("new guard reports epoch %zu, current epoch is %zu", w.epoch, cur);
            if (c == 2) {
              const auto &l = w.copy;
              bool desc = true;
              for (size_t i = 1; i < l.size(); ++i) desc = desc && l[i - 1] > l[i];
              if (l.empty() || l.front() != w.epoch) FAIL("GetProtectedEpochs: first element %s is not the guard's epoch %zu; history:%s", l.empty() ? "(empty)" : std::to_string(l.front()).c_str(), w.epoch, trace.c_str());
              if (!desc) FAIL("GetProtectedEpochs: list %s is not strictly descending; history:%s", Show(l).c_str(), trace.c_str());
              if (w.epoch > EpochManager::kInitialEpoch && (l.size() < 2 || l[1] != w.epoch - 1)) FAIL("GetProtectedEpochs: list %s lacks the preceding epoch; history:%s", Show(l).c_str(), trace.c_str());
            }
          } else if (Rand(4) == 0) {
            Command(w, 4);
            trace += " A" + std::to_string(wi);
            if (w.epoch != cur) FAIL("guard assigned from a new guard reports epoch %zu, current epoch is %zu", w.epoch, cur);
          }
        } else if (r < 88) {
          if (w.alive && w.has_guard && (style != 1 || Rand(3) == 0)) {
            Command(w, 3);
            trace += " D" + std::to_string(wi);
            if (!w.err.empty()) FAIL("%s; history:%s", w.err.c_str(), trace.c_str());
          }
        } else {
          if (w.alive && !w.has_guard) {
            Command(w, 9);
            w.th.join();
            w.alive = false;
            trace += " exit" + std::to_string(wi);
          }
        }
      }
      for (auto &x : ws) {
        if (!x->alive) continue;
        if (x->has_guard) Command(*x, 3);
        if (!x->err.empty()) FAIL("%s; history:%s", x->err.c_str(), trace.c_str());
        Command(*x, 9);
        x->th.join();
        x->alive = false;
      }
      // C16: after all guards are gone the next complete forward publishes exactly {current, current-1}
      if (failures == 0) {
        mgr.ForwardGlobalEpoch();
        ++cur;
        std::vector<size_t> pub;
        {
          auto &&[guard, list] = mgr.GetProtectedEpochs();
          pub = list;
        }
        const std::vector<size_t> expv{cur, cur - 1};
        if (pub != expv) FAIL("after all guards are gone the published list is %s, expected %s; history:%s", Show(pub).c_str(), Show(expv).c_str(), trace.c_str());
        if (mgr.GetMinEpoch() != cur - 1) FAIL("after all guards are gone GetMinEpoch is %zu, expected %zu; history:%s", mgr.GetMinEpoch(), cur - 1, trace.c_str());
      }
    }
    if (g_nodes.load() != nodes_before) FAIL("destroying the EpochManager left %ld list nodes allocated; history:%s", g_nodes.load() - nodes_before, trace.c_str());
  }
  std::printf("epoch-search: %ld histories, %d workers, seed %u: %s\n", histories, kWorkers, seed, failures ? "FAILED" : "nothing found");
  return failures ? 1 : 0;
}

static void
OnSegv(int)
{
  static const char msg[] = "REPLAY-FAIL: invalid memory access while reading a list handed out by GetProtectedEpochs or a list node (freed memory is poisoned by this harness)\n";
  (void)!write(1, msg, sizeof(msg) - 1);
  _exit(1);
}

int
main(int argc, char **argv)
{
  if (argc < 4) return 3;
  std::signal(SIGSEGV, OnSegv);
  std::signal(SIGBUS, OnSegv);
  const std::string sc = argv[1];
  const unsigned seed = static_cast<unsigned>(std::strtoul(argv[2], nullptr, 10));
  const int seconds = std::atoi(argv[3]);
  rng_state = seed * 6364136223846793005ULL + 1442695040888963407ULL;
  int rc = 3;
  if (sc == "id-search") rc = IdSearch(seed, seconds);
  if (sc == "epoch-search") rc = EpochSearch(seed, seconds);
  std::fflush(stdout);
  std::_Exit(rc);
}

// allocation tracking: list nodes of the epoch manager are over-aligned (alignas(64)), freed memory is poisoned so
// that a list read after it was freed does not compare equal to its copy
void *
operator new(std::size_t n, std::align_val_t al)
{
  void *p = std::aligned_alloc(static_cast<size_t>(al), (n + static_cast<size_t>(al) - 1) / static_cast<size_t>(al) * static_cast<size_t>(al));
  if (p == nullptr) std::abort();
  if (n == sizeof(EpochManager::ProtectedNode)) g_nodes.fetch_add(1, std::memory_order_relaxed);
  return p;
}
void
operator delete(void *p, std::size_t n, std::align_val_t) noexcept
{
  if (p == nullptr) return;
  if (n == sizeof(EpochManager::ProtectedNode)) g_nodes.fetch_sub(1, std::memory_order_relaxed);
  std::memset(p, 0xDD, n);
  std::free(p);
}
void
operator delete(void *p, std::align_val_t) noexcept
{
  std::free(p);
}
void *
operator new(std::size_t n)
{
  void *p = std::malloc(n ? n : 1);
  if (p == nullptr) std::abort();
  return p;
}
void
operator delete(void *p) noexcept
{
  std::free(p);
}
void
operator delete(void *p, std::size_t n) noexcept
{
  if (p != nullptr && n >= 8) std::memset(p, 0xDD, n);
  std::free(p);
}
