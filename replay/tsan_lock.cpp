// ThreadSanitizer replayer for C08: two conflicting critical sections on a REAL lock touch a plain payload.
// The real sources are compiled with -fsanitize=thread and -include atomic_shim.hpp; TSan honours the
// memory_order arguments written in the source, so a missing release/acquire shows as a data race on `payload`.
//
//   tsan_lock <pess|opt|mcs> <scenario>
// exit 66 (TSan) = race reported; 0 = no race; 3 = unknown scenario
#include <atomic>
#include <cstdint>
#include <cstdio>
#include <cstdlib>
#include <string>
#include <thread>

#include "dbgroup/lock/mcs_lock.hpp"
#include "dbgroup/lock/optimistic_lock.hpp"
#include "dbgroup/lock/pessimistic_lock.hpp"
#include "sched.hpp"

using dbgroup::lock::MCSLock;
using dbgroup::lock::OptimisticLock;
using dbgroup::lock::PessimisticLock;

uint64_t payload = 0;            // plain data protected by the lock
volatile uint64_t sink = 0;
std::atomic<int> stage{0};       // relaxed only: creates no happens-before

static void WaitStage(int s) { while (stage.load(std::memory_order_relaxed) < s) std::this_thread::yield(); }
static void SetStage(int s) { stage.store(s, std::memory_order_relaxed); }

template <class L>
int
Run(const std::string &sc)
{
  L lock{};
  if (sc == "S_then_X" || sc == "SIX_then_X" || sc == "X_then_S" || sc == "X_then_X" || sc == "X_then_SIX") {
    std::thread a([&] {
      if (sc == "S_then_X") { auto g = lock.LockS(); sink = payload; }
      else if (sc == "SIX_then_X") { auto g = lock.LockSIX(); sink = payload; }
      else { auto g = lock.LockX(); payload = 1; }
      SetStage(1);
    });
    std::thread b([&] {
      WaitStage(1);
      if (sc == "X_then_S") { auto g = lock.LockS(); sink = payload; }
      else if (sc == "X_then_SIX") { auto g = lock.LockSIX(); sink = payload; }
      else { auto g = lock.LockX(); payload = 2; }
    });
    a.join(); b.join();
    return 0;
  }
  if (sc == "twoS_then_X") {
    // two shared holders overlap; the one that leaves FIRST (not the last holder) read the payload; the writer comes
    // after both left: the first reader's section must still happen-before the write.  The threads are sequenced by
    // relaxed flags only (no join before the write), so the harness adds no happens-before edge of its own.
    std::thread a([&] {
      {
        auto g = lock.LockS();
        sink = payload;
        SetStage(1);
        WaitStage(2);  // C holds S as well
      }                // A leaves first, while C still holds S
      SetStage(3);
    });
    std::thread c([&] {
      WaitStage(1);
      {
        auto g = lock.LockS();
        SetStage(2);
        WaitStage(3);
      }
      SetStage(4);
    });
    std::thread b([&] {
      WaitStage(4);
      auto g = lock.LockX();
      payload = 7;
    });
    a.join(); c.join(); b.join();
    return 0;
  }
  if (sc == "S_then_upgrade") {
    // B holds SIX; A reads under S and leaves; B upgrades (must acquire A's section) and writes
    std::thread b([&] {
      auto six = lock.LockSIX();
      SetStage(1);
      WaitStage(2);
      auto x = six.UpgradeToX();
      payload = 3;
    });
    std::thread a([&] {
      WaitStage(1);
      { auto g = lock.LockS(); sink = payload; }
      SetStage(2);
    });
    a.join(); b.join();
    return 0;
  }
  if (sc == "S_before_SIX_upgrade") {
    // A holds S first; B queues SIX behind it (compatible), A reads and leaves, B upgrades and writes:
    // the upgrade must acquire A's section
    std::thread a([&] {
      auto g = lock.LockS();
      SetStage(1);
      WaitStage(2);
      sink = payload;
    });
    std::thread b([&] {
      WaitStage(1);
      auto six = lock.LockSIX();
      SetStage(2);
      auto x = six.UpgradeToX();   // returns after A released its shared grant
      payload = 8;
    });
    a.join(); b.join();
    return 0;
  }
  if (sc == "downgrade_then_S") {
    // A writes under X and downgrades (must publish); B reads under S while A still holds SIX
    std::thread a([&] {
      auto x = lock.LockX();
      payload = 4;
      auto six = x.DowngradeToSIX();
      SetStage(1);
      WaitStage(2);
    });
    std::thread b([&] {
      WaitStage(1);
      { auto g = lock.LockS(); sink = payload; }
      SetStage(2);
    });
    a.join(); b.join();
    return 0;
  }
  if constexpr (std::is_same_v<L, OptimisticLock>) {
    if (sc == "S_during_TryLockX") {
      // B: GetVersion, then TryLockX up to and including its (acquire) load; A: complete S section;
      // B: the CAS -- it reads A's release but must itself acquire
      vsched::Start({{0, 2}, {1, 3}});
      std::thread b([&] {
        vsched::Register(0);
        auto g = lock.GetVersion();
        auto x = g.TryLockX();
        if (x) payload = 5;
      });
      std::thread a([&] {
        vsched::Register(1);
        { auto s = lock.LockS(); sink = payload; }
        vsched::SkipMyTurns();
      });
      a.join(); b.join();
      return 0;
    }
    if (sc == "Xrepublish_during_TryLockS" || sc == "Xrepublish_during_TryLockSIX") {
      // A's exclusive section republishes the version it found (SetVersion), so B's CAS succeeds from an equal word
      vsched::Start({{0, 2}, {1, 3}});
      std::thread b([&] {
        vsched::Register(0);
        auto g = lock.GetVersion();
        if (sc == "Xrepublish_during_TryLockS") { auto s = g.TryLockS(); if (s) sink = payload; }
        else { auto s = g.TryLockSIX(); if (s) sink = payload; }
      });
      std::thread a([&] {
        vsched::Register(1);
        { auto x = lock.LockX(); payload = 6; x.SetVersion(x.GetVersion()); }
        vsched::SkipMyTurns();
      });
      a.join(); b.join();
      return 0;
    }
    if (sc == "Xrepublish_during_PrepareRead") {
      // built with CPP_UTILITY_SPINLOCK_RETRY_NUM=0: C holds X during B's single optimistic attempt, releases;
      // B's fallback lambda loads a free word; A's exclusive section republishes the version; B's CAS (+S) succeeds
      vsched::Start({{2, 2}, {0, 1}, {2, 1}, {0, 1}, {1, 3}});
      std::thread c([&] {
        vsched::Register(2);
        { auto x = lock.LockX(); x.SetVersion(x.GetVersion()); }
        vsched::SkipMyTurns();
      });
      std::thread b([&] {
        vsched::Register(0);
        auto g = lock.PrepareRead();
        if (g) sink = payload;
      });
      std::thread a([&] {
        vsched::Register(1);
        { auto x = lock.LockX(); payload = 7; x.SetVersion(x.GetVersion()); }
        vsched::SkipMyTurns();
      });
      a.join(); b.join(); c.join();
      return 0;
    }
  }
  return 3;
}

int
main(int argc, char **argv)
{
  if (argc < 3) return 3;
  const std::string cls = argv[1], sc = argv[2];
  int rc = 3;
  if (cls == "pess") rc = Run<PessimisticLock>(sc);
  if (cls == "opt") rc = Run<OptimisticLock>(sc);
  if (cls == "mcs") rc = Run<MCSLock>(sc);
  return rc;
}
