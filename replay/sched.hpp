// Deterministic cooperative scheduler behind verif_sched_point (replay only).
// A script is a list of (thread id, number of atomic operations).  A registered thread blocks before each
// atomic operation until the current script entry names it; after the script is exhausted all threads run
// freely.  The turn variable is accessed with relaxed operations only, so under ThreadSanitizer the
// scheduler itself creates no happens-before edges between the threads.
#pragma once
#include <atomic>
#include <chrono>
#include <cstdio>
#include <cstdlib>
#include <thread>
#include <vector>

namespace vsched
{
struct Step {
  int tid;
  int nops;
  bool hold = false;  // after its quota the thread stays blocked until the script names it again or ends
};
inline std::vector<Step> script;
inline std::atomic<int> pos{0};
inline std::atomic<int> left{0};
inline std::atomic<long> total_ops{0};
inline thread_local int my_tid = -1;
inline std::atomic<bool> trace{false};
// random mode (search scenarios): every atomic operation of a registered thread is preceded by a pseudo-random
// perturbation (nothing / yield / short sleep) drawn from a per-thread generator seeded by (seed, tid)
inline std::atomic<unsigned> random_seed{0};
inline thread_local unsigned long long rnd_state = 0;
inline unsigned
Rnd()
{
  rnd_state ^= rnd_state << 13;
  rnd_state ^= rnd_state >> 7;
  rnd_state ^= rnd_state << 17;
  return static_cast<unsigned>(rnd_state >> 11);
}
inline void
RegisterRandom(int tid, unsigned salt)
{
  my_tid = tid;
  rnd_state = 0x9E3779B97F4A7C15ULL ^ (static_cast<unsigned long long>(random_seed.load(std::memory_order_relaxed)) << 32) ^ (static_cast<unsigned long long>(salt) * 0x100000001B3ULL + tid + 1);
  if (rnd_state == 0) rnd_state = 1;
}

inline void
Start(std::vector<Step> s)
{
  script = std::move(s);
  pos.store(0, std::memory_order_relaxed);
  left.store(script.empty() ? 0 : script[0].nops, std::memory_order_relaxed);
}
inline void Register(int tid) { my_tid = tid; }
inline bool Finished() { return pos.load(std::memory_order_relaxed) >= static_cast<int>(script.size()); }
inline void Finish() { pos.store(static_cast<int>(script.size()), std::memory_order_relaxed); }
inline int Pos() { return pos.load(std::memory_order_relaxed); }
// let the script advance past the current entry (used when a thread has no more operations to perform)
inline void
SkipMyTurns()
{
  while (true) {
    int p = pos.load(std::memory_order_relaxed);
    if (p >= static_cast<int>(script.size()) || script[p].tid != my_tid) break;
    if (pos.compare_exchange_strong(p, p + 1, std::memory_order_relaxed)) {
      if (p + 1 < static_cast<int>(script.size())) left.store(script[p + 1].nops, std::memory_order_relaxed);
    }
  }
  my_tid = -1;
}
}  // namespace vsched

extern "C" void
verif_sched_point(const void *addr, const char *op, int before)
{
  using namespace vsched;
  if (my_tid < 0) return;
  if (random_seed.load(std::memory_order_relaxed) != 0) {
    const unsigned r = Rnd() & 31U;
    if (before) {
      if (r < 8) std::this_thread::yield();
      if (r == 31) std::this_thread::sleep_for(std::chrono::microseconds(20 + (Rnd() & 127U)));
    } else {
      // also after the operation: the window between a thread's last atomic step and what follows it
      if (r >= 28) std::this_thread::sleep_for(std::chrono::microseconds(50 + (Rnd() & 255U)));
    }
    return;
  }
  if (before) {
    auto t0 = std::chrono::steady_clock::now();
    while (true) {
      int p = pos.load(std::memory_order_relaxed);
      if (p >= static_cast<int>(script.size())) return;  // free run
      if (script[p].tid == my_tid) return;
      std::this_thread::yield();
      if (std::chrono::steady_clock::now() - t0 > std::chrono::seconds(20)) {
        std::printf("SCHED: thread %d starved at %s -- schedule infeasible\n", my_tid, op);
        std::fflush(stdout);
        std::_Exit(4);
      }
    }
  } else {
    total_ops.fetch_add(1, std::memory_order_relaxed);
    if (trace.load(std::memory_order_relaxed)) std::printf("  [t%d] %s %p\n", my_tid, op, addr);
    int p = pos.load(std::memory_order_relaxed);
    if (p >= static_cast<int>(script.size()) || script[p].tid != my_tid) return;
    int l = left.load(std::memory_order_relaxed) - 1;
    if (l <= 0) {
      const bool hold = script[p].hold;
      if (p + 1 < static_cast<int>(script.size())) left.store(script[p + 1].nops, std::memory_order_relaxed);
      pos.store(p + 1, std::memory_order_relaxed);
      if (hold) {
        auto t0 = std::chrono::steady_clock::now();
        while (true) {
          int q = pos.load(std::memory_order_relaxed);
          if (q >= static_cast<int>(script.size()) || script[q].tid == my_tid) break;
          std::this_thread::yield();
          if (std::chrono::steady_clock::now() - t0 > std::chrono::seconds(20)) break;
        }
      }
    } else {
      left.store(l, std::memory_order_relaxed);
    }
  }
}
