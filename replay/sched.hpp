// Deterministic cooperative scheduler behind verif_sched_point (replay only).
// A script is a list of (thread id, number of atomic operations).  A registered thread blocks before each
// atomic operation until the current script entry names it; after the script is exhausted all threads run
// freely.  The turn variable is accessed with relaxed operations only, so under ThreadSanitizer the
// scheduler itself creates no happens-before edges between the threads.
#pragma once
#include <atomic>
#include <chrono>
#include <cstdio>
#include <cstdlib>
#include <thread>
#include <vector>

namespace vsched
{
struct Step {
  int tid;
  int nops;
  bool hold = false;  // after its quota the thread stays blocked until the script names it again or ends
};
inline std::vector<Step> script;
inline std::atomic<int> pos{0};
inline std::atomic<int> left{0};
inline std::atomic<long> total_ops{0};
inline thread_local int my_tid = -1;
inline std::atomic<bool> trace{false};

inline void
Start(std::vector<Step> s)
{
  script = std::move(s);
  pos.store(0, std::memory_order_relaxed);
  left.store(script.empty() ? 0 : script[0].nops, std::memory_order_relaxed);
}
inline void Register(int tid) { my_tid = tid; }
inline bool Finished() { return pos.load(std::memory_order_relaxed) >= static_cast<int>(script.size()); }
inline void Finish() { pos.store(static_cast<int>(script.size()), std::memory_order_relaxed); }
inline int Pos() { return pos.load(std::memory_order_relaxed); }
// let the script advance past the current entry (used when a thread has no more operations to perform)
inline void
SkipMyTurns()
{
  while (true) {
    int p = pos.load(std::memory_order_relaxed);
    if (p >= static_cast<int>(script.size()) || script[p].tid != my_tid) break;
    if (pos.compare_exchange_strong(p, p + 1, std::memory_order_relaxed)) {
      if (p + 1 < static_cast<int>(script.size())) left.store(script[p + 1].nops, std::memory_order_relaxed);
    }
  }
  my_tid = -1;
}
}  // namespace vsched

extern "C" void
verif_sched_point(const void *addr, const char *op, int before)
{
  using namespace vsched;
  if (my_tid < 0) return;
  if (before) {
    auto t0 = std::chrono::steady_clock::now();
    while (true) {
      int p = pos.load(std::memory_order_relaxed);
      if (p >= static_cast<int>(script.size())) return;  // free run
      if (script[p].tid == my_tid) return;
      std::this_thread::yield();
      if (std::chrono::steady_clock::now() - t0 > std::chrono::seconds(20)) {
        std::printf("SCHED: thread %d starved at %s -- schedule infeasible\n", my_tid, op);
        std::fflush(stdout);
        std::_Exit(4);
      }
    }
  } else {
    total_ops.fetch_add(1, std::memory_order_relaxed);
    if (trace.load(std::memory_order_relaxed)) std::printf("  [t%d] %s %p\n", my_tid, op, addr);
    int p = pos.load(std::memory_order_relaxed);
    if (p >= static_cast<int>(script.size()) || script[p].tid != my_tid) return;
    int l = left.load(std::memory_order_relaxed) - 1;
    if (l <= 0) {
      const bool hold = script[p].hold;
      if (p + 1 < static_cast<int>(script.size())) left.store(script[p + 1].nops, std::memory_order_relaxed);
      pos.store(p + 1, std::memory_order_relaxed);
      if (hold) {
        auto t0 = std::chrono::steady_clock::now();
        while (true) {
          int q = pos.load(std::memory_order_relaxed);
          if (q >= static_cast<int>(script.size()) || script[q].tid == my_tid) break;
          std::this_thread::yield();
          if (std::chrono::steady_clock::now() - t0 > std::chrono::seconds(20)) break;
        }
      }
    } else {
      left.store(l, std::memory_order_relaxed);
    }
  }
}
