// Native replayer / bounded numeric checker for the Zipf generators, built against the real /repo sources.
//   zipf_replay bracket <exact|approx> <u32|u64|i32|i64> <min> <max> <alpha> <engine-word>   one sample, bracket check
//   zipf_replay seam <type>                      search (n, alpha, u) where the exact/approx seam breaks the bracket property
//   zipf_replay sweep <exact|approx> <type> <seed> <count>   random (min,max,alpha,u incl. breakpoints) bracket checks
//   zipf_replay ctor-invalid <type>               construct with max < min at extreme bounds (run under UBSan)
//   zipf_replay grid <quick|thorough>             C18 bounded numeric check against a long double reference
//   zipf_replay purity <exact|approx> <type>      C19: rerun / equal parameters / copy / move / one const generator shared by threads
// exit 0 ok, 1 "REPLAY-FAIL: ..." printed, 3 usage
#include <cmath>
#include <cstdint>
#include <cstdio>
#include <cstdlib>
#include <cstring>
#include <limits>
#include <random>
#include <stdexcept>
#include <string>
#include <thread>
#include <vector>

#include "dbgroup/random/zipf.hpp"

using dbgroup::random::ApproxZipfDistribution;
using dbgroup::random::ZipfDistribution;

struct FixedEngine {
  using result_type = uint64_t;
  uint64_t word;
  static constexpr result_type min() { return 0; }
  static constexpr result_type max() { return std::numeric_limits<uint64_t>::max(); }
  result_type operator()() { return word; }
};

static int failures = 0;

static double
UOf(uint64_t word)
{
  FixedEngine e{word};
  std::uniform_real_distribution<double> d{0.0, 1.0};
  return d(e);
}

// engine word that makes uniform_real_distribution produce (a value very close to) u
static uint64_t
WordFor(double u)
{
  if (u <= 0) return 0;
  long double w = static_cast<long double>(u) * 18446744073709551616.0L;
  if (w >= 18446744073709551615.0L) return std::numeric_limits<uint64_t>::max();
  return static_cast<uint64_t>(w);
}

template <class Dist, class T>
bool
CheckBracket(const Dist &d, T min, T max, double alpha, uint64_t word, const char *cls, const char *ty, bool verbose)
{
  FixedEngine e{word};
  const double u = UOf(word);
  const T v = d(e);
  bool ok = true;
  if (v < min || v > max) ok = false;
  double hi = 0, lo = 0;
  if (ok) {
    hi = d.GetCDF(static_cast<T>(v - min));
    if (!(u <= hi)) ok = false;
    if (v != min) {
      lo = d.GetCDF(static_cast<T>(v - min - 1));
      if (!(lo <= u)) ok = false;
    }
  }
  if (!ok || verbose) {
    std::printf("%s%s<%s>(min=%lld, max=%lld, alpha=%.17g) engine-word=%llu u=%.17g -> v=%lld GetCDF(v-min-1)=%.17g GetCDF(v-min)=%.17g\n",
                ok ? "" : "REPLAY-FAIL: ", cls, ty, (long long)min, (long long)max, alpha, (unsigned long long)word, u, (long long)v, lo, hi);
  }
  if (!ok) ++failures;
  return ok;
}

template <class T>
int
Bracket(const std::string &cls, const char *ty, long long mn, long long mx, double alpha, uint64_t word)
{
  const T min = static_cast<T>(mn), max = static_cast<T>(mx);
  if (cls == "exact") {
    ZipfDistribution<T> d{min, max, alpha};
    CheckBracket(d, min, max, alpha, word, "ZipfDistribution", ty, true);
  } else {
    ApproxZipfDistribution<T> d{min, max, alpha};
    CheckBracket(d, min, max, alpha, word, "ApproxZipfDistribution", ty, true);
  }
  return failures ? 1 : 0;
}

template <class T>
int
Seam(const char *ty)
{
  // the exact table ends at bin 99, the closed form starts at bin 100: look for GetCDF(99) > GetCDF(100)
  const long long ns[] = {101, 150, 1000, 10000, 802815, 4000000};
  for (long long n : ns) {
    for (int a = 0; a <= 300; ++a) {
      const double alpha = a / 100.0;
      ApproxZipfDistribution<T> d{static_cast<T>(0), static_cast<T>(n - 1), alpha};
      const double c99 = d.GetCDF(99), c100 = d.GetCDF(100);
      if (c99 > c100) {
        // u == GetCDF(100) makes the search stop at bin 100 although GetCDF(99) > u
        for (uint64_t w : {WordFor(c100), WordFor(c100) + 2048, WordFor(c100) - 2048, WordFor((c99 + c100) / 2)}) {
          if (!CheckBracket(d, static_cast<T>(0), static_cast<T>(n - 1), alpha, w, "ApproxZipfDistribution", ty, false)) return 1;
        }
        // scan the gap
        for (int k = 0; k < 4096; ++k) {
          const double u = c100 + (c99 - c100) * k / 4096.0;
          if (!CheckBracket(d, static_cast<T>(0), static_cast<T>(n - 1), alpha, WordFor(u), "ApproxZipfDistribution", ty, false)) return 1;
        }
      }
    }
  }
  return failures ? 1 : 0;
}

// C06 for ranges whose bin count max - min + 1 does not fit into IntType (full range of a type, or a signed range wider
// than the positive half): only the approximate class can represent such ranges at all (100-entry table)
template <class T>
int
WideRange(const char *ty)
{
  const T lo = std::numeric_limits<T>::min(), hi = std::numeric_limits<T>::max();
  struct Case { T min, max; };
  std::vector<Case> cases{{lo, hi}};
  if (std::numeric_limits<T>::is_signed) cases.push_back({static_cast<T>(lo / 2 - 1000), static_cast<T>(hi / 2 + 1000)});
  for (const auto &c : cases) {
    ApproxZipfDistribution<T> d{c.min, c.max, 1.0};
    std::mt19937_64 rng{7};
    long at_min = 0, out_of_range = 0;
    const int kN = 2000;
    for (int i = 0; i < kN; ++i) {
      const T v = d(rng);
      at_min += v == c.min;
      out_of_range += (v < c.min || v > c.max);
    }
    // with alpha = 1 and more than 2^31 bins the first bin has probability < 0.05
    if (at_min > kN / 2 || out_of_range > 0) {
      ++failures;
      std::printf("REPLAY-FAIL: wide-range ApproxZipfDistribution<%s>(%lld, %llu, 1): the bin count max - min + 1 does not fit into the integer type; %ld of %d samples equal min, %ld are outside [min, max] (GetCDF(0) = %g)\n",
                  ty, static_cast<long long>(c.min), static_cast<unsigned long long>(c.max), at_min, kN, out_of_range, d.GetCDF(0));
    }
  }
  return failures ? 1 : 0;
}

// bounded: monotonicity across the seam (bin 99 -> bin 100) for ordinary bin counts; the recorded seam finding of the
// pinned tree only shows for n of several 10^5, so any failure here is a new regression
template <class T>
int
SeamSmall(const char *ty)
{
  long cases = 0;
  for (long long n : {101LL, 102LL, 150LL, 199LL, 200LL, 500LL, 1000LL, 1099LL, 2000LL, 2999LL, 5000LL, 5099LL, 10000LL, 20000LL}) {
    for (int a = 0; a <= 300; ++a) {
      const double alpha = a / 100.0;
      ApproxZipfDistribution<T> d{static_cast<T>(0), static_cast<T>(n - 1), alpha};
      ++cases;
      const double c99 = d.GetCDF(99), c100 = d.GetCDF(100);
      if (c99 > c100) {
        std::printf("REPLAY-FAIL: ApproxZipfDistribution<%s>(0, %lld, %g): GetCDF(99) = %.17g > GetCDF(100) = %.17g (a sample with u in between is not the inverse-CDF image)\n", ty, n - 1, alpha, c99, c100);
        if (++failures > 5) goto done;
      }
    }
  }
done:
  std::printf("SEAMSMALL cases=%ld failures=%d\n", cases, failures);
  return failures ? 1 : 0;
}

template <class T>
int
Sweep(const std::string &cls, const char *ty, uint64_t seed, long count)
{
  std::mt19937_64 rng{seed};
  for (long it = 0; it < count; ++it) {
    const int kind = rng() % 6;
    long long n = 1;
    switch (kind) {
      case 0: n = 1 + rng() % 3; break;
      case 1: n = 95 + rng() % 12; break;
      case 2: n = 1 + rng() % 300; break;
      case 3: n = 990 + rng() % 20; break;
      default: n = 1 + rng() % 20000; break;
    }
    long long mn;
    const bool is_signed = std::numeric_limits<T>::is_signed;
    switch (rng() % 4) {
      case 0: mn = 0; break;
      case 1: mn = is_signed ? -static_cast<long long>(rng() % 1000) : static_cast<long long>(rng() % 1000); break;
      case 2: mn = static_cast<long long>(std::numeric_limits<T>::max() / 2) - n; break;  // near the upper limit (halved: fits long long)
      default: mn = is_signed ? static_cast<long long>(std::numeric_limits<T>::min() / 2) : 5; break;
    }
    const long long mx = mn + n - 1;
    const double alphas[] = {0.0, 0.5, 0.99, 1.0, 1.01, 2.0, 3.0, 7.5};
    const double alpha = (rng() % 3 == 0) ? (rng() % 3000) / 1000.0 : alphas[rng() % 8];
    const T min = static_cast<T>(mn), max = static_cast<T>(mx);
    auto run = [&](auto &d, const char *name) {
      // engine words on, just below and just above a CDF breakpoint, plus random words
      const long long k = static_cast<long long>(rng() % n);
      const double c = d.GetCDF(static_cast<T>(k));
      const uint64_t w0 = WordFor(c);
      const uint64_t ws[] = {w0, w0 - 2048, w0 + 2048, w0 - 1, w0 + 1, rng(), rng(), 0, std::numeric_limits<uint64_t>::max()};
      for (uint64_t w : ws) {
        if (!CheckBracket(d, min, max, alpha, w, name, ty, false)) return false;
      }
      return true;
    };
    if (cls == "exact") {
      ZipfDistribution<T> d{min, max, alpha};
      if (!run(d, "ZipfDistribution")) return 1;
    } else {
      ApproxZipfDistribution<T> d{min, max, alpha};
      if (!run(d, "ApproxZipfDistribution")) return 1;
    }
  }
  // default-constructed generators always return 0
  {
    FixedEngine e{rng()};
    ZipfDistribution<T> z{};
    ApproxZipfDistribution<T> a{};
    if (z(e) != 0 || a(e) != 0) {
      std::printf("REPLAY-FAIL: default-constructed generator returned a non-zero value\n");
      return 1;
    }
  }
  return 0;
}

template <class T>
int
CtorInvalid(const char *ty)
{
  const T lo = std::numeric_limits<T>::min(), hi = std::numeric_limits<T>::max();
  int thrown = 0;
  try { ZipfDistribution<T> d{hi, lo, 1.0}; } catch (const std::runtime_error &) { ++thrown; }
  try { ApproxZipfDistribution<T> d{hi, lo, 1.0}; } catch (const std::runtime_error &) { ++thrown; }
  try { ApproxZipfDistribution<T> d{static_cast<T>(5), static_cast<T>(4), 1.0}; } catch (const std::runtime_error &) { ++thrown; }
  if (thrown != 3) {
    std::printf("REPLAY-FAIL: construction with max < min was not rejected (%s, %d of 3 threw)\n", ty, thrown);
    return 1;
  }
  return 0;
}

// ---- C18 bounded numeric grid -----------------------------------------------------------------
static long grid_evals = 0, grid_cases = 0;
template <class T>
void
GridCase(long long n, double alpha, const char *ty, bool check_close)
{
  ++grid_cases;
  const T min = static_cast<T>(std::numeric_limits<T>::is_signed ? -3 : 2), max = static_cast<T>(static_cast<long long>(min) + n - 1);
  ZipfDistribution<T> ex{min, max, alpha};
  ApproxZipfDistribution<T> ap{min, max, alpha};
  // reference: normalised partial sums in long double
  long double total = 0;
  for (long long i = 1; i <= n; ++i) total += std::pow(static_cast<long double>(i), -static_cast<long double>(alpha));
  long double acc = 0;
  double prev = 0, prev_ap = 0;
  double max_diff = 0;
  for (long long k = 0; k < n; ++k) {
    ++grid_evals;
    acc += std::pow(static_cast<long double>(k + 1), -static_cast<long double>(alpha));
    const long double ref = acc / total;
    const double e = ex.GetCDF(static_cast<T>(k));
    const double a = ap.GetCDF(static_cast<T>(k));
    if (!(std::fabs(static_cast<double>(ref) - e) <= 1e-9 * (1 + n * 1e-6))) {
      std::printf("REPLAY-FAIL: exact GetCDF(%lld)=%.17g differs from the Zipf-law reference %.17Lg (%s n=%lld alpha=%.17g)\n", k, e, ref, ty, n, alpha);
      ++failures;
      return;
    }
    if (!(e >= prev)) {
      std::printf("REPLAY-FAIL: exact CDF decreases at bin %lld: %.17g < %.17g (%s n=%lld alpha=%.17g)\n", k, e, prev, ty, n, alpha);
      ++failures;
      return;
    }
    if (n <= 100 && a != e) {
      std::printf("REPLAY-FAIL: approx GetCDF(%lld)=%.17g != exact %.17g for n<=100 (%s n=%lld alpha=%.17g)\n", k, a, e, ty, n, alpha);
      ++failures;
      return;
    }
    if (std::fabs(a - e) > max_diff) max_diff = std::fabs(a - e);
    prev = e;
    prev_ap = a;
  }
  (void)prev_ap;
  if (ex.GetCDF(static_cast<T>(n - 1)) != 1.0 || ap.GetCDF(static_cast<T>(n - 1)) != 1.0) {
    std::printf("REPLAY-FAIL: last bin is not exactly 1 (%s n=%lld alpha=%.17g: exact %.17g approx %.17g)\n", ty, n, alpha, ex.GetCDF(static_cast<T>(n - 1)), ap.GetCDF(static_cast<T>(n - 1)));
    ++failures;
    return;
  }
  if (check_close && n >= 1000 && alpha <= 3.0 && max_diff > 0.01) {
    std::printf("REPLAY-FAIL: approximation differs from the exact CDF by %.6g > 0.01 (%s n=%lld alpha=%.17g)\n", max_diff, ty, n, alpha);
    ++failures;
  }
}

static int
Grid(bool thorough)
{
  std::vector<long long> ns;
  for (long long n = 1; n <= (thorough ? 300 : 130); n += (thorough ? 1 : 7)) ns.push_back(n);
  for (long long n : {1LL, 2LL, 3LL, 99LL, 100LL, 101LL, 102LL, 999LL, 1000LL, 1001LL, 1099LL, 1199LL, 1999LL, 10000LL}) ns.push_back(n);   // incl. bin counts just below a multiple of the 100-bin stride
  if (thorough) for (long long n : {100000LL, 1000000LL, 4000000LL}) ns.push_back(n);
  std::vector<double> alphas;
  for (int a = 0; a <= 300; a += (thorough ? 1 : 25)) alphas.push_back(a / 100.0);
  for (double a : {std::nextafter(1.0, 0.0), std::nextafter(1.0, 2.0), 0.999, 1.001, 5.0, 20.0, 50.0, 700.0}) alphas.push_back(a);
  // large skews at which an accumulated table entry can exceed 1 by a few ulps before the last bin (only small tables:
  // the sum saturates within the first bins)
  const std::vector<double> saturating{8.5, 9.75, 12.25, 15.5, 17.0, 23.25, 28.75};
  const size_t ordinary = alphas.size();
  for (double a : saturating) alphas.push_back(a);
  int ti = 0;
  for (long long n : ns) {
    for (size_t ai = 0; ai < alphas.size(); ++ai) {
      const double alpha = alphas[ai];
      if (ai >= ordinary && n > 300) continue;
      if (n > 100000 && !(alpha == 0.0 || alpha == 0.5 || alpha == 1.0 || alpha == 2.0 || alpha == 3.0)) continue;
      switch (ti++ % 4) {
        case 0: GridCase<uint32_t>(n, alpha, "u32", true); break;
        case 1: GridCase<uint64_t>(n, alpha, "u64", true); break;
        case 2: GridCase<int32_t>(n, alpha, "i32", true); break;
        default: GridCase<int64_t>(n, alpha, "i64", true); break;
      }
      if (failures > 3000) goto done;
    }
  }
  if (!thorough) {
    // a few very large bin counts with the slowly converging skews around 1 (the thorough tier has more)
    for (long long n : {1000000LL, 3000000LL}) {
      for (double alpha : {0.5, 1.0, 1.1, 1.2, 1.3, 2.0}) {
        switch (ti++ % 4) {
          case 0: GridCase<uint32_t>(n, alpha, "u32", true); break;
          case 1: GridCase<uint64_t>(n, alpha, "u64", true); break;
          case 2: GridCase<int32_t>(n, alpha, "i32", true); break;
          default: GridCase<int64_t>(n, alpha, "i64", true); break;
        }
        if (failures > 3000) goto done;
      }
    }
    // fine skew sweep (step 0.01 over [0, 3]) at two bin counts of the "n >= 1000" clause; the thorough tier sweeps every n
    for (long long n : {1000LL, 10000LL}) {
      for (int a = 0; a <= 300; ++a) {
        if (a % 25 == 0) continue;
        switch (ti++ % 4) {
          case 0: GridCase<uint32_t>(n, a / 100.0, "u32", true); break;
          case 1: GridCase<uint64_t>(n, a / 100.0, "u64", true); break;
          case 2: GridCase<int32_t>(n, a / 100.0, "i32", true); break;
          default: GridCase<int64_t>(n, a / 100.0, "i64", true); break;
        }
        if (failures > 3000) goto done;
      }
    }
  }
done:
  std::printf("GRID cases=%ld evaluations=%ld failures=%d\n", grid_cases, grid_evals, failures);
  return failures ? 1 : 0;
}

#define DISPATCH(ty, CALL)                       \
  do {                                           \
    const std::string t_ = (ty);                 \
    if (t_ == "u32") { using T = uint32_t; return CALL; } \
    if (t_ == "u64") { using T = uint64_t; return CALL; } \
    if (t_ == "i32") { using T = int32_t; return CALL; }  \
    if (t_ == "i64") { using T = int64_t; return CALL; }  \
    return 3;                                    \
  } while (0)

// C19: a generator is a pure function of its parameters and the engine
template <class Dist, class T>
static int
PurityOf(const char *cls, const char *ty, T min, T max, double alpha)
{
  const Dist d{min, max, alpha};
  auto seq = [](const Dist &g, uint64_t seed, int n) {
    std::mt19937_64 e{seed};
    std::vector<T> out;
    out.reserve(n);
    for (int i = 0; i < n; ++i) out.push_back(g(e));
    return out;
  };
  const int kN = 20000;
  const auto ref = seq(d, 42, kN);
  if (seq(d, 42, kN) != ref) { ++failures; std::printf("REPLAY-FAIL: %s<%s>(%lld, %lld, %g): the same generator gives a different sequence on a second run from the same engine state\n", cls, ty, (long long)min, (long long)max, alpha); }
  const Dist same{min, max, alpha};
  if (seq(same, 42, kN) != ref) { ++failures; std::printf("REPLAY-FAIL: %s<%s>(%lld, %lld, %g): two generators with equal parameters differ\n", cls, ty, (long long)min, (long long)max, alpha); }
  // another generator used on this thread in between must not matter
  const Dist other{min, max, alpha + 0.75};
  (void)seq(other, 7, 2000);
  if (seq(d, 42, kN) != ref) { ++failures; std::printf("REPLAY-FAIL: %s<%s>(%lld, %lld, %g): using another generator on the same thread changed this generator's output\n", cls, ty, (long long)min, (long long)max, alpha); }
  // construction must not depend on generators built before (hidden static state keyed by a subset of the parameters)
  {
    const T max2 = static_cast<T>(min + (max - min) / 2 + 3);
    const Dist same_alpha_other_range{min, max2, alpha};
    const Dist rebuilt{min, max, alpha};   // built right after a generator with the same skew and another range
    const Dist other_alpha{min, max2, alpha + 0.5};
    const Dist rebuilt2{min, max, alpha};  // built right after a generator with another skew
    if (seq(rebuilt, 42, kN) != ref || seq(rebuilt2, 42, kN) != ref) { ++failures; std::printf("REPLAY-FAIL: %s<%s>(%lld, %lld, %g): a generator built after another generator (same skew / other range, or other skew) differs from one with equal parameters built before\n", cls, ty, (long long)min, (long long)max, alpha); }
    (void)same_alpha_other_range; (void)other_alpha;
  }
  Dist copy{d};
  if (seq(copy, 42, kN) != ref) { ++failures; std::printf("REPLAY-FAIL: %s<%s>(%lld, %lld, %g): a copy differs from its source\n", cls, ty, (long long)min, (long long)max, alpha); }
  Dist moved{std::move(copy)};
  if (seq(moved, 42, kN) != ref) { ++failures; std::printf("REPLAY-FAIL: %s<%s>(%lld, %lld, %g): a moved generator differs from its source\n", cls, ty, (long long)min, (long long)max, alpha); }
  Dist assigned{};
  assigned = d;
  if (seq(assigned, 42, kN) != ref) { ++failures; std::printf("REPLAY-FAIL: %s<%s>(%lld, %lld, %g): a copy-assigned generator differs from its source\n", cls, ty, (long long)min, (long long)max, alpha); }
  // one const generator shared by threads, each with its own engine
  const int kThreads = 8, kM = 60000;
  std::vector<std::vector<T>> solo(kThreads), shared(kThreads);
  for (int t = 0; t < kThreads; ++t) solo[t] = seq(d, 1000 + t, kM);
  for (int round = 0; round < 3; ++round) {
    std::vector<std::thread> ths;
    for (int t = 0; t < kThreads; ++t) ths.emplace_back([&, t] { shared[t] = seq(d, 1000 + t, kM); });
    for (auto &th : ths) th.join();
    for (int t = 0; t < kThreads; ++t) {
      if (shared[t] != solo[t]) {
        long bad = 0;
        for (int i = 0; i < kM; ++i) bad += shared[t][i] != solo[t][i];
        ++failures;
        std::printf("REPLAY-FAIL: %s<%s>(%lld, %lld, %g): thread %d sharing one const generator got %ld of %d samples different from the sequence it gets alone\n", cls, ty, (long long)min, (long long)max, alpha, t, bad, kM);
        return 1;
      }
    }
  }
  return failures ? 1 : 0;
}

template <class T>
static int
Purity(const std::string &cls, const char *ty)
{
  const T lo = std::numeric_limits<T>::is_signed ? static_cast<T>(-5) : static_cast<T>(3);
  const long long widths[] = {0, 1, 49, 99, 100, 150, 1000, 99999, 1000000};
  for (long long w : widths) {
    for (double alpha : {0.0, 0.5, 1.0, 2.0}) {
      const T mx = static_cast<T>(lo + static_cast<T>(w));
      const int rc = cls == "exact" ? PurityOf<ZipfDistribution<T>, T>("ZipfDistribution", ty, lo, mx, alpha)
                                    : PurityOf<ApproxZipfDistribution<T>, T>("ApproxZipfDistribution", ty, lo, mx, alpha);
      if (rc != 0) return 1;
      if (cls == "exact" && w > 100000) break;
    }
  }
  // construction with max < min is rejected
  bool thrown = false;
  try {
    if (cls == "exact") { ZipfDistribution<T> bad{static_cast<T>(10), static_cast<T>(9), 1.0}; (void)bad; }
    else { ApproxZipfDistribution<T> bad{static_cast<T>(10), static_cast<T>(9), 1.0}; (void)bad; }
  } catch (const std::exception &) { thrown = true; }
  if (!thrown) { ++failures; std::printf("REPLAY-FAIL: %s<%s>: construction with max < min produced a generator instead of an exception\n", cls.c_str(), ty); }
  std::printf("purity %s %s: %s\n", cls.c_str(), ty, failures ? "FAILED" : "ok");
  return failures ? 1 : 0;
}

int
main(int argc, char **argv)
{
  if (argc < 2) return 3;
  const std::string mode = argv[1];
  if (mode == "bracket" && argc >= 8) {
    const std::string cls = argv[2];
    const long long mn = std::strtoll(argv[4], nullptr, 0), mx = std::strtoll(argv[5], nullptr, 0);
    const double alpha = std::strtod(argv[6], nullptr);
    const uint64_t word = std::strtoull(argv[7], nullptr, 0);
    DISPATCH(argv[3], (Bracket<T>(cls, argv[3], mn, mx, alpha, word)));
  }
  if (mode == "wide-range" && argc >= 3) DISPATCH(argv[2], (WideRange<T>(argv[2])));
  if (mode == "seam-small" && argc >= 3) DISPATCH(argv[2], (SeamSmall<T>(argv[2])));
  if (mode == "seam" && argc >= 3) DISPATCH(argv[2], (Seam<T>(argv[2])));
  if (mode == "sweep" && argc >= 6) {
    const std::string cls = argv[2];
    DISPATCH(argv[3], (Sweep<T>(cls, argv[3], std::strtoull(argv[4], nullptr, 0), std::strtol(argv[5], nullptr, 0))));
  }
  if (mode == "ctor-invalid" && argc >= 3) DISPATCH(argv[2], (CtorInvalid<T>(argv[2])));
  if (mode == "purity" && argc >= 4) {
    const std::string cls = argv[2];
    DISPATCH(argv[3], (Purity<T>(cls, argv[3])));
  }
  if (mode == "grid" && argc >= 3) return Grid(std::string(argv[2]) == "thorough");
  return 3;
}
