// Atomic-interposition shim (replay only).  Usage:
//   g++ -include /verif/replay/atomic_shim.hpp <unmodified /repo source> ...
// std::atomic_uint64_t / atomic_size_t / atomic_bool of the repository become a wrapper that forwards every
// operation to a real std::atomic WITH THE SAME memory order and calls verif_sched_point() around it, so a
// replay harness can drive a counterexample's interleaving deterministically on the real code.
#pragma once
#include <atomic>  // real header first; its include guard blocks re-inclusion
#include <cstddef>
#include <cstdint>
extern "C" void verif_sched_point(const void *addr, const char *op, int before);
namespace std
{
template <class T>
struct verif_atomic {
  std::atomic<T> a;
  constexpr verif_atomic() noexcept = default;
  constexpr verif_atomic(T v) noexcept : a(v) {}  // NOLINT
  verif_atomic(const verif_atomic &) = delete;
  auto operator=(const verif_atomic &) -> verif_atomic & = delete;
  T load(memory_order m = memory_order_seq_cst) const noexcept
  {
    verif_sched_point(this, "load", 1);
    T r = a.load(m);
    verif_sched_point(this, "load", 0);
    return r;
  }
  void store(T v, memory_order m = memory_order_seq_cst) noexcept
  {
    verif_sched_point(this, "store", 1);
    a.store(v, m);
    verif_sched_point(this, "store", 0);
  }
  T exchange(T v, memory_order m = memory_order_seq_cst) noexcept
  {
    verif_sched_point(this, "exchange", 1);
    T r = a.exchange(v, m);
    verif_sched_point(this, "exchange", 0);
    return r;
  }
  bool compare_exchange_weak(T &e, T d, memory_order s, memory_order f) noexcept
  {
    verif_sched_point(this, "cas", 1);
    bool r = a.compare_exchange_strong(e, d, s, f);  // no spurious failures during replay
    verif_sched_point(this, "cas", 0);
    return r;
  }
  bool compare_exchange_strong(T &e, T d, memory_order s, memory_order f) noexcept
  {
    verif_sched_point(this, "cas", 1);
    bool r = a.compare_exchange_strong(e, d, s, f);
    verif_sched_point(this, "cas", 0);
    return r;
  }
  T fetch_add(T v, memory_order m = memory_order_seq_cst) noexcept
  {
    verif_sched_point(this, "fetch_add", 1);
    T r = a.fetch_add(v, m);
    verif_sched_point(this, "fetch_add", 0);
    return r;
  }
  T fetch_sub(T v, memory_order m = memory_order_seq_cst) noexcept
  {
    verif_sched_point(this, "fetch_sub", 1);
    T r = a.fetch_sub(v, m);
    verif_sched_point(this, "fetch_sub", 0);
    return r;
  }
  T fetch_xor(T v, memory_order m = memory_order_seq_cst) noexcept
  {
    verif_sched_point(this, "fetch_xor", 1);
    T r = a.fetch_xor(v, m);
    verif_sched_point(this, "fetch_xor", 0);
    return r;
  }
};
template <>
struct verif_atomic<bool> {
  std::atomic<bool> a;
  constexpr verif_atomic() noexcept = default;
  constexpr verif_atomic(bool v) noexcept : a(v) {}  // NOLINT
  verif_atomic(const verif_atomic &) = delete;
  bool load(memory_order m = memory_order_seq_cst) const noexcept
  {
    verif_sched_point(this, "load", 1);
    bool r = a.load(m);
    verif_sched_point(this, "load", 0);
    return r;
  }
  void store(bool v, memory_order m = memory_order_seq_cst) noexcept
  {
    verif_sched_point(this, "store", 1);
    a.store(v, m);
    verif_sched_point(this, "store", 0);
  }
  bool exchange(bool v, memory_order m = memory_order_seq_cst) noexcept
  {
    verif_sched_point(this, "exchange", 1);
    bool r = a.exchange(v, m);
    verif_sched_point(this, "exchange", 0);
    return r;
  }
};
}  // namespace std
#define atomic_uint64_t verif_atomic<uint64_t>
#define atomic_size_t verif_atomic<size_t>
#define atomic_bool verif_atomic<bool>
