// Abstract-state replayer: runs ONE function of a real lock class from a given abstract pre-state
// (others hold oS x S / SIX / X, optional version) and evaluates the function's contract natively.
// Built against the unmodified /repo sources with -fno-access-control (to read the lock word).
//
//   lock_replay <pess|opt|mcs> <function> <oS> <oSIX> <ver>
// exit 0: contract holds on the real code for this input; exit 1: "REPLAY-FAIL: ..." lines; exit 3: usage
#include <atomic>
#include <chrono>
#include <cstdint>
#include <cstdio>
#include <cstdlib>
#include <cstring>
#include <future>
#include <string>
#include <thread>
#include <vector>

#include "dbgroup/lock/mcs_lock.hpp"
#include "dbgroup/lock/optimistic_lock.hpp"
#include "dbgroup/lock/pessimistic_lock.hpp"

using dbgroup::lock::MCSLock;
using dbgroup::lock::OptimisticLock;
using dbgroup::lock::PessimisticLock;

static int failures = 0;
#define CHECK(c, ...)                      \
  do {                                     \
    if (!(c)) {                            \
      ++failures;                          \
      std::printf("REPLAY-FAIL: ");        \
      std::printf(__VA_ARGS__);            \
      std::printf("\n");                   \
    }                                      \
  } while (0)

struct Totals {
  uint64_t s, six, x, ver;
};

template <class L>
Totals
Decode(L &l)
{
  const uint64_t w = l.lock_.load();
  if constexpr (std::is_same_v<L, PessimisticLock>) {
    return {w & ((1UL << 62) - 1), (w >> 62) & 1, w >> 63, 0};
  } else if constexpr (std::is_same_v<L, OptimisticLock>) {
    return {(w >> 32) & ((1UL << 30) - 1), (w >> 62) & 1, w >> 63, w & 0xffffffffUL};
  } else {
    return {(w >> 47) & ((1UL << 15) - 1), (w >> 62) & 1, w >> 63, 0};
  }
}

// run f with a watchdog; returns false if it did not finish within ms
template <class F>
bool
Within(int ms, F &&f)
{
  auto fut = std::async(std::launch::async, std::forward<F>(f));
  if (fut.wait_for(std::chrono::milliseconds(ms)) != std::future_status::ready) {
    std::printf("REPLAY-FAIL: call did not return within %d ms\n", ms);
    std::fflush(stdout);
    std::_Exit(1);
  }
  fut.get();
  return true;
}

template <class L>
void
SetVersion(L &l, uint32_t ver)
{
  if constexpr (std::is_same_v<L, OptimisticLock>) {
    auto x = l.LockX();
    x.SetVersion(ver);
  }
}

template <class L>
void
FinalFree(L &l, const char *what)
{
  // after the last guard is gone a fresh exclusive request succeeds without waiting
  Within(3000, [&] { auto x = l.LockX(); CHECK(static_cast<bool>(x), "%s: final LockX returned a non-owning guard", what); });
  auto t = Decode(l);
  CHECK(t.s == 0 && t.six == 0 && t.x == 0, "%s: lock word not free after all guards died (S=%lu SIX=%lu X=%lu)", what,
        t.s, t.six, t.x);
}

template <class L>
int
Run(const std::string &fn, unsigned oS, unsigned oSIX, uint32_t ver)
{
  using SG = typename L::SGuard;
  using SIXG = typename L::SIXGuard;
  using XG = typename L::XGuard;
  L lock{};
  SetVersion(lock, ver);
  {
    std::vector<SG> others_s;
    for (unsigned i = 0; i < oS; ++i) others_s.emplace_back(lock.LockS());
    SIXG other_six{};
    if (oSIX) other_six = lock.LockSIX();
    // a helper releases the other holders after a short while so that blocking conversions can finish
    auto release_others = [&] {
      std::this_thread::sleep_for(std::chrono::milliseconds(30));
      others_s.clear();
      other_six = SIXG{};
    };

    if (fn == "LockS") {
      Within(3000, [&] {
        auto g = lock.LockS();
        CHECK(static_cast<bool>(g), "LockS: result does not own");
        auto t = Decode(lock);
        CHECK(t.s == oS + 1 && t.six == oSIX && t.x == 0, "LockS: word S=%lu SIX=%lu X=%lu, expected S=%u", t.s, t.six, t.x, oS + 1);
      });
      auto t = Decode(lock);
      CHECK(t.s == oS, "~SGuard: S=%lu expected %u", t.s, oS);
    } else if (fn == "LockSIX") {
      if (oSIX) { other_six = SIXG{}; oSIX = 0; }
      Within(3000, [&] {
        auto g = lock.LockSIX();
        CHECK(static_cast<bool>(g), "LockSIX: result does not own");
        auto t = Decode(lock);
        CHECK(t.s == oS && t.six == 1 && t.x == 0, "LockSIX: word S=%lu SIX=%lu X=%lu", t.s, t.six, t.x);
      });
      auto t = Decode(lock);
      CHECK(t.six == 0 && t.s == oS, "~SIXGuard: SIX=%lu S=%lu", t.six, t.s);
    } else if (fn == "LockX") {
      others_s.clear(); other_six = SIXG{};
      Within(3000, [&] {
        auto g = lock.LockX();
        CHECK(static_cast<bool>(g), "LockX: result does not own");
        auto t = Decode(lock);
        CHECK(t.s == 0 && t.six == 0 && t.x == 1, "LockX: word S=%lu SIX=%lu X=%lu", t.s, t.six, t.x);
      });
      auto t = Decode(lock);
      CHECK(t.x == 0, "~XGuard: X still set");
      if constexpr (std::is_same_v<L, OptimisticLock>) CHECK(t.ver == ((ver + 1U) & 0xffffffffU), "~XGuard: version %lu, expected %u", t.ver, ver + 1U);
    } else if (fn == "UpgradeToX") {
      if (oSIX) { other_six = SIXG{}; oSIX = 0; }
      auto six = lock.LockSIX();
      std::thread helper(release_others);
      Within(5000, [&] {
        auto x = six.UpgradeToX();
        CHECK(static_cast<bool>(x), "UpgradeToX: result guard does not own the grant (operator bool is false)");
        CHECK(!static_cast<bool>(six), "UpgradeToX: source guard still owns");
        auto t = Decode(lock);
        CHECK(t.x == 1 && t.six == 0 && t.s == 0, "UpgradeToX: word S=%lu SIX=%lu X=%lu, expected X only", t.s, t.six, t.x);
      });
      helper.join();
      auto t = Decode(lock);
      CHECK(t.x == 0 && t.six == 0, "UpgradeToX: after the result guard died the word still has SIX=%lu X=%lu (grant never released)", t.six, t.x);
      if constexpr (std::is_same_v<L, OptimisticLock>) CHECK(t.ver == ((ver + 1U) & 0xffffffffU), "UpgradeToX: version %lu after release, expected %u", t.ver, ver + 1U);
      {  // no gap: while the upgrade waits for a reader, a competing SIX request must not be granted
        auto six2 = lock.LockSIX();
        std::atomic<int> phase{0};
        std::atomic<bool> competitor_got_six{false}, upgrade_done{false};
        std::thread reader([&] {
          auto s = lock.LockS();
          phase.store(1);
          while (phase.load() < 2) std::this_thread::yield();
        });
        while (phase.load() < 1) std::this_thread::yield();
        std::thread competitor([&] {
          auto c = lock.LockSIX();
          if (!upgrade_done.load()) competitor_got_six.store(true);
          phase.store(2);
        });
        std::thread releaser([&] {
          std::this_thread::sleep_for(std::chrono::milliseconds(100));
          int expected = 1;
          phase.compare_exchange_strong(expected, 2);
        });
        Within(5000, [&] {
          auto x2 = six2.UpgradeToX();
          upgrade_done.store(true);
          CHECK(!competitor_got_six.load(), "UpgradeToX: another thread obtained SIX between LockSIX and the end of the upgrade (conversion with a gap)");
        });
        reader.join();
        competitor.join();
        releaser.join();
      }
      {  // non-owning source: non-owning result, no effect
        SIXG empty{};
        auto before = lock.lock_.load();
        auto x = empty.UpgradeToX();
        CHECK(!static_cast<bool>(x), "UpgradeToX(non-owning): result owns");
        if (t.x == 0) CHECK(lock.lock_.load() == before, "UpgradeToX(non-owning): word changed");
      }
    } else if (fn == "DowngradeToSIX") {
      others_s.clear(); other_six = SIXG{};
      auto x = lock.LockX();
      Within(3000, [&] {
        auto six = x.DowngradeToSIX();
        CHECK(static_cast<bool>(six), "DowngradeToSIX: result guard does not own");
        CHECK(!static_cast<bool>(x), "DowngradeToSIX: source guard still owns");
        auto t = Decode(lock);
        CHECK(t.x == 0 && t.six == 1 && t.s == 0, "DowngradeToSIX: word S=%lu SIX=%lu X=%lu", t.s, t.six, t.x);
        if constexpr (std::is_same_v<L, OptimisticLock>) CHECK(t.ver == ((ver + 1U) & 0xffffffffU), "DowngradeToSIX: version %lu, expected %u", t.ver, ver + 1U);
      });
      auto t = Decode(lock);
      CHECK(t.six == 0 && t.x == 0, "DowngradeToSIX: grant not released by result guard");
      XG empty{};
      auto s2 = empty.DowngradeToSIX();
      CHECK(!static_cast<bool>(s2), "DowngradeToSIX(non-owning): result owns");
    } else if (fn == "SGuard" || fn == "SIXGuard" || fn == "XGuard") {
      // construction, move construction, move assignment, destruction
      if (fn != "SGuard") { others_s.clear(); oS = 0; }
      if (fn != "SGuard" || true) { other_six = SIXG{}; oSIX = 0; }
      auto word = [&] { return Decode(lock); };
      auto expect = [&](unsigned mine, const char *at) {
        auto t = word();
        if (fn == "SGuard") CHECK(t.s == oS + mine, "%s: S=%lu expected %u", at, t.s, oS + mine);
        if (fn == "SIXGuard") CHECK(t.six == mine, "%s: SIX=%lu expected %u", at, t.six, mine);
        if (fn == "XGuard") CHECK(t.x == mine, "%s: X=%lu expected %u", at, t.x, mine);
      };
      auto body = [&](auto acquire) {
        using GT = decltype(acquire());
        GT d{};
        CHECK(!static_cast<bool>(d), "default guard owns");
        {
          GT a = acquire();
          CHECK(static_cast<bool>(a), "acquired guard does not own");
          expect(1, "after acquire");
          GT b{std::move(a)};
          CHECK(static_cast<bool>(b) && !static_cast<bool>(a), "move construction: ownership not transferred");
          expect(1, "after move construction");
          d = std::move(b);
          CHECK(static_cast<bool>(d) && !static_cast<bool>(b), "move assignment: ownership not transferred");
          expect(1, "after move assignment");
        }
        expect(1, "after moved-from guards died");
        if (fn == "SGuard") {
          GT c = acquire();
          expect(2, "second grant");
          d = std::move(c);  // releases d's old grant exactly once
          expect(1, "after move assignment over an owning guard");
        }
        d = GT{};
        expect(0, "after assigning an empty guard over an owning one");
        d = GT{};
        expect(0, "after assigning an empty guard over an empty one");
      };
      Within(5000, [&] {
        if (fn == "SGuard") body([&] { return lock.LockS(); });
        if (fn == "SIXGuard") body([&] { return lock.LockSIX(); });
        if (fn == "XGuard") body([&] { return lock.LockX(); });
      });
    } else {
      std::printf("unknown function %s\n", fn.c_str());
      return 3;
    }
  }
  FinalFree(lock, fn.c_str());
  return failures ? 1 : 0;
}

int
main(int argc, char **argv)
{
  if (argc < 6) return 3;
  const std::string cls = argv[1], fn = argv[2];
  const unsigned oS = std::atoi(argv[3]), oSIX = std::atoi(argv[4]);
  const uint32_t ver = static_cast<uint32_t>(std::strtoul(argv[5], nullptr, 0));
  int rc = 3;
  if (cls == "pess") rc = Run<PessimisticLock>(fn, oS, oSIX, ver);
  if (cls == "opt") rc = Run<OptimisticLock>(fn, oS, oSIX, ver);
  if (cls == "mcs") rc = Run<MCSLock>(fn, oS, oSIX, ver);
  std::fflush(stdout);
  std::_Exit(rc);
}
