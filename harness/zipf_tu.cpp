// Driver translation unit for the extractor: the real zipf.cpp plus explicit instantiations of the member
// templates operator()<RandEngine>, whose bodies live in the header and are not instantiated by zipf.cpp itself.
#include VERIF_REPO_SRC

#include <random>

namespace dbgroup::random
{
#define VERIF_INST(T)                                                                         \
  template T ZipfDistribution<T>::operator()<std::mt19937_64>(std::mt19937_64 &) const;       \
  template T ApproxZipfDistribution<T>::operator()<std::mt19937_64>(std::mt19937_64 &) const;
VERIF_INST(uint32_t)
VERIF_INST(uint64_t)
VERIF_INST(int32_t)
VERIF_INST(int64_t)
}  // namespace dbgroup::random
