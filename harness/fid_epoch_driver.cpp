// Fidelity driver, C++ side: the REAL EpochManager runs the same scripted sequential histories; every worker of the
// script is a real thread that executes its commands one at a time (synchronously with the main thread).
#include <condition_variable>
#include <cstdio>
#include <cstdlib>
#include <cstring>
#include <memory>
#include <mutex>
#include <new>
#include <optional>
#include <thread>
#include <vector>

#include "dbgroup/thread/epoch_manager.hpp"
#include "fid_epoch_script.inc"

using dbgroup::thread::EpochGuard;
using dbgroup::thread::EpochManager;
static_assert(DBGROUP_MAX_THREAD_NUM == FID_K);
static long live_nodes = 0;

struct Worker {
  std::thread th;
  std::mutex m;
  std::condition_variable cv;
  char cmd = 0;
  bool alive = false;
};

static void
PrintList(const char *tag, const std::vector<size_t> &v)
{
  std::printf("%s", tag);
  for (size_t e : v) std::printf(" %zu", e);
  std::printf("\n");
}

static void
WorkerMain(EpochManager *mgr, Worker *w, int idx)
{
  std::optional<EpochGuard> g;
  const std::vector<size_t> *list = nullptr;
  while (true) {
    char c;
    {
      std::unique_lock<std::mutex> lk{w->m};
      w->cv.wait(lk, [&] { return w->cmd != 0; });
      c = w->cmd;
    }
    if (c == 'G') {
      g.emplace(mgr->CreateEpochGuard());
      list = nullptr;
      std::printf("G %d epoch %zu\n", idx, g->GetProtectedEpoch());
    } else if (c == 'L') {
      auto &&[guard, l] = mgr->GetProtectedEpochs();
      g.emplace(std::move(guard));
      list = &l;
      std::printf("L %d epoch %zu", idx, g->GetProtectedEpoch());
      PrintList(" list", *list);
    } else if (c == 'A') {
      *g = mgr->CreateEpochGuard();
      list = nullptr;
      std::printf("A %d epoch %zu\n", idx, g->GetProtectedEpoch());
    } else if (c == 'D') {
      if (list != nullptr) PrintList("D list", *list); else std::printf("D\n");
      g.reset();
      list = nullptr;
    } else if (c == 'X') {
      std::printf("X %d\n", idx);
    }
    std::fflush(stdout);
    {
      std::lock_guard<std::mutex> lk{w->m};
      w->cmd = 0;
    }
    w->cv.notify_all();
    if (c == 'X' || c == 'x') return;
  }
}

static void
Command(Worker &w, char c)
{
  {
    std::lock_guard<std::mutex> lk{w.m};
    w.cmd = c;
  }
  w.cv.notify_all();
  std::unique_lock<std::mutex> lk{w.m};
  w.cv.wait(lk, [&] { return w.cmd == 0; });
}

int
main()
{
  for (int h = 0; h < FID_HISTORIES; ++h) {
    {
      EpochManager mgr{};
      std::vector<std::unique_ptr<Worker>> ws;
      for (int i = 0; i < FID_K; ++i) ws.emplace_back(new Worker{});
      std::printf("H %d cur %zu min %zu\n", h, mgr.GetCurrentEpoch(), mgr.GetMinEpoch());
      for (int i = fid_start[h]; i < fid_start[h + 1]; ++i) {
        const fid_op op = fid_ops[i];
        if (op.kind == 'F') {
          for (int k = 0; k < op.n; ++k) mgr.ForwardGlobalEpoch();
          auto &&[guard, list] = mgr.GetProtectedEpochs();
          std::printf("F %d cur %zu min %zu guard %zu nodes %ld", op.n, mgr.GetCurrentEpoch(), mgr.GetMinEpoch(), guard.GetProtectedEpoch(), live_nodes);
          PrintList(" list", list);
          continue;
        }
        Worker &w = *ws[op.w];
        if (!w.alive) {
          w.alive = true;
          w.th = std::thread(WorkerMain, &mgr, &w, op.w);
        }
        Command(w, op.kind);
        if (op.kind == 'X') {
          w.th.join();
          w.alive = false;
        }
      }
      std::fflush(stdout);
      for (auto &w : ws) {
        if (!w->alive) continue;
        Command(*w, 'x');  // the script ends with every guard destroyed; the remaining threads exit without a line
        w->th.join();
        w->alive = false;
      }
    }
    std::printf("E nodes %ld\n", live_nodes);
  }
  return 0;
}

// list nodes are over-aligned allocations
void *
operator new(std::size_t n, std::align_val_t al)
{
  void *p = std::aligned_alloc(static_cast<size_t>(al), (n + static_cast<size_t>(al) - 1) / static_cast<size_t>(al) * static_cast<size_t>(al));
  if (p == nullptr) std::abort();
  if (n == sizeof(EpochManager::ProtectedNode)) ++live_nodes;
  return p;
}
void
operator delete(void *p, std::size_t n, std::align_val_t) noexcept
{
  if (p == nullptr) return;
  if (n == sizeof(EpochManager::ProtectedNode)) --live_nodes;
  std::free(p);
}
void
operator delete(void *p, std::align_val_t) noexcept
{
  std::free(p);
}
