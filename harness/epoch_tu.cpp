// Driver translation unit for the extractor: the three real sources of the epoch component in one TU
// (the include path contains the repository root).
#include "src/thread/component/epoch.cpp"
#include "src/thread/epoch_guard.cpp"
#include "src/thread/epoch_manager.cpp"
