/* MCSLock stubs, part 1 (before the record definitions): the thread-local node cache type */
#ifndef RG_MCS_H
#define RG_MCS_H
#include <stdlib.h>
struct MCSLock;
typedef struct { struct MCSLock *p; } unique_ptr_MCSLock;
#endif
