/* Common part of the stub library: C stand-ins for the C++ library types the
 * extracted code uses.  Included by every extracted translation unit before
 * its record definitions; verif_stubs_post.h follows the records.
 *
 * Every function here is either loop-free and inlined into the proof, or is
 * replaced by its contract.  All of them are ASSUMED contracts on a
 * dependency (listed in the evidence files). */
#ifndef VERIF_STUBS_H
#define VERIF_STUBS_H

#include <stddef.h>
#include <stdint.h>

typedef struct { uint64_t v; } atomic_u64;
typedef struct { _Bool v; } atomic_b;
typedef int chrono_us;

enum {
  VERIF_MEMORY_ORDER_RELAXED = 0,
  VERIF_MEMORY_ORDER_CONSUME = 1,
  VERIF_MEMORY_ORDER_ACQUIRE = 2,
  VERIF_MEMORY_ORDER_RELEASE = 3,
  VERIF_MEMORY_ORDER_ACQ_REL = 4,
  VERIF_MEMORY_ORDER_SEQ_CST = 5
};
/* memory_order_consume is NOT an acquire: it orders only data-dependent accesses, and client data does not depend on the lock word */
#define VERIF_IS_ACQUIRE(mo) ((mo) == VERIF_MEMORY_ORDER_ACQUIRE || (mo) == VERIF_MEMORY_ORDER_ACQ_REL || (mo) == VERIF_MEMORY_ORDER_SEQ_CST)
#define VERIF_IS_RELEASE(mo) ((mo) == VERIF_MEMORY_ORDER_RELEASE || (mo) == VERIF_MEMORY_ORDER_ACQ_REL || (mo) == VERIF_MEMORY_ORDER_SEQ_CST)

uint64_t nondet_u64(void);
uint32_t nondet_u32(void);
_Bool nondet_bool(void);
double nondet_double(void);
size_t nondet_size(void);

/* exceptions: `throw E{...}` sets the flag and the caller tests it */
extern _Bool verif_thrown;

/* CPP_UTILITY_SPINLOCK_HINT (_mm_pause) and sleep_for: no effect on shared state */
static inline void verif_spin_hint(void) {}
static inline void verif_sleep_for(void) {}

/* std::min / std::max (by value) */
#define VERIF_MINMAX(T) \
  static inline T verif_min_##T(T a, T b) { return b < a ? b : a; } \
  static inline T verif_max_##T(T a, T b) { return a < b ? b : a; }
VERIF_MINMAX(double)
VERIF_MINMAX(uint64_t)
VERIF_MINMAX(size_t)
VERIF_MINMAX(int64_t)
VERIF_MINMAX(uint32_t)
VERIF_MINMAX(int32_t)

/* std::exchange on plain objects */
static inline void *verif_exchange_ptr(void **p, void *v) { void *o = *p; *p = v; return o; }
#define VERIF_EXCHANGE(T) static inline T verif_exchange_##T(T *p, T v) { T o = *p; *p = v; return o; }
VERIF_EXCHANGE(uint64_t)
VERIF_EXCHANGE(size_t)
VERIF_EXCHANGE(uint32_t)
VERIF_EXCHANGE(int64_t)
VERIF_EXCHANGE(int32_t)
VERIF_EXCHANGE(_Bool)

/* std::swap on plain objects */
static inline void verif_swap_ptr(void **a, void **b) { void *t = *a; *a = *b; *b = t; }
#define VERIF_SWAP(T) static inline void verif_swap_##T(T *a, T *b) { T t = *a; *a = *b; *b = t; }
VERIF_SWAP(uint64_t)
VERIF_SWAP(size_t)
VERIF_SWAP(uint32_t)
VERIF_SWAP(int64_t)
VERIF_SWAP(int32_t)
VERIF_SWAP(_Bool)

static inline atomic_u64 atomic_u64_init(uint64_t v) { atomic_u64 a; a.v = v; return a; }
static inline atomic_b atomic_b_init(_Bool v) { atomic_b a; a.v = v; return a; }

#if defined(VERIF_LOCK_PESS) || defined(VERIF_LOCK_OPT)
#include "rg_lock.h"
#elif defined(VERIF_LOCK_MCS)
#include "rg_mcs.h"
#elif defined(VERIF_ID)
#include "rg_id.h"
#elif defined(VERIF_EPOCH)
#include "rg_epoch.h"
#elif defined(VERIF_ZIPF)
#include "zipf_stubs.h"
#elif defined(VERIF_NATIVE)
#include "native_stubs.h"
#endif

#endif
