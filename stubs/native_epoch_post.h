/* part of the executable epoch stubs that needs the extracted record definitions (fidelity check only) */
#ifndef NATIVE_EPOCH_POST_H
#define NATIVE_EPOCH_POST_H
extern long sim_live_nodes;
Epoch Epoch_ctor0(void);
static inline EpochManager_ProtectedNode *verif_new_EpochManager_ProtectedNode(EpochManager_ProtectedNode v)
{
  EpochManager_ProtectedNode *p = malloc(sizeof(EpochManager_ProtectedNode));
  *p = v;
  sim_live_nodes++;
  return p;
}
static inline void verif_delete_EpochManager_ProtectedNode(EpochManager_ProtectedNode *p)
{
  if(p == 0) return;
  for(int i = 0; i < 256; i++) free(p->epoch_lists_.a[i].data);
  sim_live_nodes--;
  free(p);
}
static inline EpochManager_TLSEpoch *verif_new_array_EpochManager_TLSEpoch(size_t n)
{
  EpochManager_TLSEpoch *p = malloc(n * sizeof(EpochManager_TLSEpoch));
  for(size_t i = 0; i < n; i++) { p[i].epoch = Epoch_ctor0(); p[i].heartbeat = weak_ptr_size_default(); }
  return p;
}
typedef struct { EpochGuard first; vec_size *second; } pair_EpochGuard_vecref;
static inline pair_EpochGuard_vecref pair_EpochGuard_vecref_make(EpochGuard g, vec_size *v) { pair_EpochGuard_vecref p; p.first = g; p.second = v; return p; }
#endif
