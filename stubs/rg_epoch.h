/* Stubs and rely/guarantee atomics for the epoch component (Epoch, EpochGuard, EpochManager).
 *
 * Roles: a WORKER function runs in the thread that owns slot EP.my_slot; the COORDINATOR function
 * ForwardGlobalEpoch runs in the single coordinator thread (stated precondition of the property).
 *   global_epoch_ : written only by the coordinator, monotone; a worker sees an arbitrary non-decreasing value
 *   slot.entered_ : written only by the owner of the slot; the coordinator sees, for every slot but the tracked
 *                   one, an arbitrary value that is MAX or <= the current epoch (a pin is a value read from the
 *                   counter); the tracked slot EP.t_slot holds EP.t_epoch during the whole call (C04 hypothesis)
 *   heartbeats    : ghost generations as in rg_id.h; for the coordinator a slot's heartbeat is arbitrary except the
 *                   tracked one, which is unexpired
 * std::vector<size_t> is abstract: size, membership bits of two tracked values, max/min/last element. */
#ifndef RG_EPOCH_H
#define RG_EPOCH_H
#include <stdlib.h>

typedef struct { size_t *ptr; uint64_t gen; size_t val; } shared_ptr_size;
typedef struct { uint64_t gen; _Bool bound; } weak_ptr_size;
typedef int std_greater_size;

#define EP_MAX 0xffffffffffffffffUL

#ifdef VERIF_VEC_CONCRETE
/* BOUNDED variant used only by the bounded chain groups: a real array of at most VEC_CAP elements */
#define VEC_CAP 6
typedef struct { size_t size; size_t data[VEC_CAP]; } vec_size;
#else
typedef struct {
  size_t size, cap;
  _Bool has_v, has_w;   /* the tracked values EP.v / EP.w are elements */
  size_t maxv, minv;    /* maximum / minimum element (meaningful when size > 0) */
  size_t last;          /* back() */
  _Bool sorted;         /* sorted descending */
  _Bool uniq;           /* strictly descending */
  size_t uniq_end;      /* logical end returned by std::unique */
} vec_size;
#endif
typedef struct { vec_size *vec; size_t pos; } vec_size_iter;
typedef struct { vec_size a[256]; } arr_vec_size_256;

enum { EP_WORKER = 0, EP_COORD = 1 };
struct ep_state {
  int role;
  /* me as a worker */
  size_t my_slot;
  uint64_t my_gen;
  _Bool my_gen_alive;
  uint64_t last_global_read;    /* value returned by my last load of the global epoch */
  _Bool have_global_read;
  /* C04: tracked live guard of some thread (skolem) */
  _Bool t_active;
  size_t t_slot;
  uint64_t t_epoch;
  /* quiescent hypothesis of C16: no guard is alive */
  _Bool quiescent;
  /* tracked values for vector membership */
  size_t v, w;
  /* counters for frame statements */
  /* C17: the list node whose range contains my published pin is (still) linked into the chain */
  _Bool pin_node_present;
  uint64_t n_global_stores, n_min_stores, n_entered_stores;
  uint64_t trimmed_for;  /* ghost: first element of the list the chain was last trimmed against (RemoveOutDatedLists) */
  uint64_t nodes_allocated, nodes_freed;
  size_t scan_slot; _Bool scan_alive;   /* ghost: slot whose heartbeat the coordinator tested last, and the outcome */
  _Bool v_just;              /* ghost: the skolem value EP.v was loaded as the pin of a slot found alive in this scan */
  _Bool last_global_acq;     /* ghost: the worker's last read of the global epoch was an acquire operation */
  uint64_t head_upper;       /* ghost mirror of protected_lists_->upper_epoch_ (range of the chain's head node) */
  uint64_t new_node_upper;   /* ghost: range and successor of the list node allocated last */
  void *new_node_next;
};
extern struct ep_state EP;
extern atomic_u64 *g_global;  /* &mgr.global_epoch_ */
extern atomic_u64 *g_min;     /* &mgr.min_epoch_ */
extern const size_t kMaxThreadNum;

#pragma CPROVER check push
#pragma CPROVER check disable "unsigned-overflow"
#pragma CPROVER check disable "conversion"
#pragma CPROVER check disable "pointer-overflow"

uint64_t ep_slot_load(atomic_u64 *a); /* defined in rg_epoch_post.h (needs the record layout) */

/* ---- atomics ---------------------------------------------------------------------------------- */
static inline uint64_t atomic_u64_load(atomic_u64 *a, int mo)
{
  if(a == g_global)
  {
    if(EP.role == EP_WORKER)
    {
      /* RELY: the coordinator may have advanced the epoch any number of times */
      uint64_t g = nondet_u64();
      /* ASSUME[rely]: the global epoch is monotone and stays below 2^61 (single coordinator increments by one) */
      __CPROVER_assume(g >= a->v && g < (1UL << 61));
      a->v = g;
      EP.last_global_read = g;
      EP.have_global_read = 1;
      EP.last_global_acq = VERIF_IS_ACQUIRE(mo);
    }
    return a->v;
  }
  if(a == g_min)
  {
    if(EP.role == EP_WORKER) { uint64_t m = nondet_u64(); __CPROVER_assume(m <= g_global->v); /* ASSUME[rely]: min <= current (C16 step guarantee of the coordinator) */ a->v = m; }
    return a->v;
  }
  /* a slot's pinned epoch */
  return ep_slot_load(a);
}

static inline void atomic_u64_store(atomic_u64 *a, uint64_t v, int mo)
{
  if(a == g_global)
  {
    __CPROVER_assert(EP.role == EP_COORD, "[C16][G.single-writer] only the coordinator writes the global epoch");
    __CPROVER_assert(v == a->v + 1, "[C16][G.plus-one] the global epoch grows by exactly one per ForwardGlobalEpoch");
    __CPROVER_assert(VERIF_IS_RELEASE(mo), "[C17][G.publish-list] the new epoch is published with release order (the list is written before)");
    a->v = v;
    EP.n_global_stores++;
    return;
  }
  if(a == g_min)
  {
    __CPROVER_assert(EP.role == EP_COORD, "[C16][G.single-writer] only the coordinator writes the minimum epoch");
    __CPROVER_assert(v <= g_global->v, "[C16][G.min-le-current] GetMinEpoch never exceeds GetCurrentEpoch");
    a->v = v;
    EP.n_min_stores++;
    return;
  }
  /* my slot's pinned epoch (workers only) */
  __CPROVER_assert(EP.role == EP_WORKER, "[C04][G.slot-owner] a slot's pinned epoch is written only by its owner");
  __CPROVER_assert(v == EP_MAX || (EP.have_global_read && v == EP.last_global_read), "[C04][C17][G.pin-is-current] a pinned epoch is a value of the global epoch read by this call");
  a->v = v;
  EP.n_entered_stores++;
  if(v != EP_MAX)
  {
    /* RELY (C17): until this store the pin was not published, so the coordinator may have advanced the epoch any
     * number of times and retired every node that holds neither the current epoch, the next one, nor a published pin */
    uint64_t G = nondet_u64();
    /* ASSUME[rely]: the global epoch is monotone */
    __CPROVER_assume(G >= g_global->v && G < (1UL << 61));
    g_global->v = G;
    EP.pin_node_present = ((v & ~255UL) == (G & ~255UL) || (v & ~255UL) == ((G + 1) & ~255UL)) ? 1 : nondet_bool();
  }
}

static inline void atomic_thread_fence_stub(int mo) { (void)mo; }

/* ---- weak_ptr / heartbeat --------------------------------------------------------------------- */
static inline shared_ptr_size shared_ptr_size_default(void) { shared_ptr_size p; p.ptr = 0; p.gen = 0; p.val = 0; return p; }
static inline weak_ptr_size weak_ptr_size_default(void) { weak_ptr_size w; w.gen = 0; w.bound = 0; return w; }
static inline weak_ptr_size *weak_ptr_size_assign(weak_ptr_size *dst, weak_ptr_size src) { *dst = src; return dst; }
static inline void weak_ptr_size_dtor(weak_ptr_size *w) { (void)w; }

#ifdef VERIF_VEC_CONCRETE
/* ---- vector<size_t> (BOUNDED concrete variant) -------------------------------------------------- */
static inline void vec_size_reserve(vec_size *v, size_t n) { (void)v; (void)n; }
static inline void vec_size_emplace_back(vec_size *v, size_t x)
{
  __CPROVER_assert(v->size < VEC_CAP, "[bounded] vector stays within the bound VEC_CAP");
  v->data[v->size] = x;
  v->size = v->size + 1;
}
static inline size_t *vec_size_back(vec_size *v)
{
  __CPROVER_assert(v->size > 0, "[C16][C20][safety] back() of an empty vector");
  return &v->data[v->size - 1];
}
static inline size_t vec_size_size(const vec_size *v) { return v->size; }
static inline _Bool vec_size_empty(const vec_size *v) { return v->size == 0; }
static inline void vec_size_clear(vec_size *v) { v->size = 0; }
static inline size_t *vec_size_front(vec_size *v)
{
  __CPROVER_assert(v->size > 0, "[C16][C20][safety] front() of an empty vector");
  return &v->data[0];
}
static inline size_t *vec_size_at(vec_size *v, size_t i)
{
  __CPROVER_assert(i < v->size, "[C16][C20][safety] vector::at index in range");
  return &v->data[i];
}
static inline vec_size_iter vec_size_begin(vec_size *v) { vec_size_iter i; i.vec = v; i.pos = 0; return i; }
static inline vec_size_iter vec_size_end(vec_size *v) { vec_size_iter i; i.vec = v; i.pos = v->size; return i; }
static inline void vec_size_sort_desc(vec_size_iter b, vec_size_iter e)
{
  vec_size *v = b.vec;
  for(size_t i = 1; i < v->size && i < VEC_CAP; i++)
    for(size_t j = i; j > 0 && v->data[j - 1] < v->data[j]; j--) { size_t t = v->data[j]; v->data[j] = v->data[j - 1]; v->data[j - 1] = t; }
  (void)e;
}
static inline vec_size_iter vec_size_unique(vec_size_iter b, vec_size_iter e)
{
  vec_size *v = b.vec;
  size_t n = 0;
  for(size_t i = 0; i < v->size && i < VEC_CAP; i++)
    if(n == 0 || v->data[n - 1] != v->data[i]) { v->data[n] = v->data[i]; n++; }
  (void)e;
  vec_size_iter r; r.vec = v; r.pos = n;
  return r;
}
static inline void vec_size_erase(vec_size *v, vec_size_iter from, vec_size_iter to) { (void)to; v->size = from.pos; }
static inline size_t *vec_size_iter_deref(vec_size_iter *it)
{
  __CPROVER_assert(it->pos < it->vec->size, "[C20][safety] dereference of an iterator inside the vector");
  return &it->vec->data[it->pos];
}
static inline vec_size_iter *vec_size_iter_inc(vec_size_iter *it) { it->pos = it->pos + 1; return it; }
static inline _Bool vec_size_iter_eq(const vec_size_iter *a, const vec_size_iter *b) { return a->vec == b->vec && a->pos == b->pos; }

#else
/* ---- vector<size_t> (abstract) ----------------------------------------------------------------- */
static inline void vec_size_reserve(vec_size *v, size_t n) { if(n > v->cap) v->cap = n; }
static inline void vec_size_emplace_back(vec_size *v, size_t x)
{
  if(v->size == 0) { v->maxv = x; v->minv = x; }
  else { if(x > v->maxv) v->maxv = x; if(x < v->minv) v->minv = x; }
  if(x == EP.v) v->has_v = 1;
  if(x == EP.w) v->has_w = 1;
  v->last = x;
  v->size = v->size + 1;
  v->sorted = 0;
  v->uniq = 0;
}
static size_t vec_scratch;
static inline size_t *vec_size_back(vec_size *v)
{
  __CPROVER_assert(v->size > 0, "[C16][C20][safety] back() of an empty vector");
  vec_scratch = v->last;
  return &vec_scratch;
}
static inline size_t vec_size_size(const vec_size *v) { return v->size; }
static inline _Bool vec_size_empty(const vec_size *v) { return v->size == 0; }
static inline void vec_size_clear(vec_size *v) { v->size = 0; v->has_v = 0; v->has_w = 0; v->sorted = 0; v->uniq = 0; }
static inline size_t *vec_size_front(vec_size *v)
{
  __CPROVER_assert(v->size > 0, "[C16][C20][safety] front() of an empty vector");
  size_t x = nondet_size();
  /* ASSUME[library]: the first element lies between minimum and maximum; it is the maximum of a vector sorted descending */
  __CPROVER_assume(x <= v->maxv && x >= v->minv && (!v->sorted || x == v->maxv));
  vec_scratch = x;
  return &vec_scratch;
}
static inline size_t *vec_size_at(vec_size *v, size_t i)
{
  __CPROVER_assert(i < v->size, "[C16][C20][safety] vector::at index in range");
  size_t x = nondet_size();
  /* ASSUME[library]: an element lies between minimum and maximum; first = max and last = min for a sorted vector */
  __CPROVER_assume(x <= v->maxv && x >= v->minv && (i != 0 || !v->sorted || x == v->maxv) && (i + 1 != v->size || !v->sorted || x == v->minv));
  vec_scratch = x;
  return &vec_scratch;
}
static inline vec_size_iter vec_size_begin(vec_size *v) { vec_size_iter i; i.vec = v; i.pos = 0; return i; }
static inline vec_size_iter vec_size_end(vec_size *v) { vec_size_iter i; i.vec = v; i.pos = v->size; return i; }
/* std::sort(begin, end, greater): ASSUMED library contract -- same multiset, descending */
static inline void vec_size_sort_desc(vec_size_iter b, vec_size_iter e)
{
  __CPROVER_assert(b.vec == e.vec && b.pos == 0 && e.pos == b.vec->size, "[model] sort over the whole vector");
  b.vec->sorted = 1;
  if(b.vec->size > 0) b.vec->last = b.vec->minv;
}
/* std::unique(begin, end) on a sorted range: ASSUMED library contract -- keeps one copy of every value */
static inline vec_size_iter vec_size_unique(vec_size_iter b, vec_size_iter e)
{
  __CPROVER_assert(b.vec == e.vec && b.pos == 0 && e.pos == b.vec->size && b.vec->sorted, "[model] unique over the whole sorted vector");
  size_t n = nondet_size();
  /* ASSUME[library]: number of distinct values: between 1 (2 when max != min) and the old size; 0 for an empty vector */
  __CPROVER_assume(n <= b.vec->size && (b.vec->size == 0 || n >= 1) && (b.vec->size == 0 || b.vec->maxv == b.vec->minv || n >= 2) && (b.vec->maxv != b.vec->minv || n <= 1));
  b.vec->uniq_end = n;
  vec_size_iter r; r.vec = b.vec; r.pos = n;
  return r;
}
static inline void vec_size_erase(vec_size *v, vec_size_iter from, vec_size_iter to)
{
  __CPROVER_assert(from.vec == v && to.vec == v && to.pos == v->size && from.pos == v->uniq_end && v->sorted, "[model] erase(unique_end, end) after sort+unique");
  v->size = from.pos;
  v->uniq = 1;
}

/* iterators over the abstract vector: an element is only known through the max/min/sortedness summary */
static inline size_t *vec_size_iter_deref(vec_size_iter *it)
{
  __CPROVER_assert(it->pos < it->vec->size, "[C20][safety] dereference of an iterator inside the vector");
  size_t x = nondet_size();
  /* ASSUME[library]: elements of a sorted, duplicate-free vector lie between its minimum and maximum; first = max, last = min */
  __CPROVER_assume(x <= it->vec->maxv && x >= it->vec->minv && (it->pos != 0 || !it->vec->sorted || x == it->vec->maxv) && (it->pos + 1 != it->vec->size || !it->vec->sorted || x == it->vec->minv));
  vec_scratch = x;
  return &vec_scratch;
}
static inline vec_size_iter *vec_size_iter_inc(vec_size_iter *it) { it->pos = it->pos + 1; return it; }
static inline _Bool vec_size_iter_eq(const vec_size_iter *a, const vec_size_iter *b) { return a->vec == b->vec && a->pos == b->pos; }

#endif

#pragma CPROVER check pop
#endif
