/* Rely/guarantee atomics and smart-pointer model for IDManager (src/thread/id_manager.cpp).
 *
 * Shared state: the reservation flags F[0..K) (K = kMaxThreadNum, symbolic).  "me" = the thread running the
 * function under proof.  A flag cell is only ever accessed through an atomic operation, so "all other threads did
 * anything in between" is modelled per access: the accessed cell gets an arbitrary value unless it is a cell the
 * invariant pins:  my own flag stays set while I own it (only the owner clears it), and the flag of the skolem
 * OTHER running thread (slot g_o) stays set (the property's hypothesis: that thread is still executing user code).
 *
 * Heartbeats: shared_ptr<size_t> / weak_ptr<size_t> carry a ghost generation number; only my own generation is
 * tracked (ID.my_gen_alive); it is created by make_shared and dies when the last owner held by the library is destroyed/overwritten (owners are
 * counted: copies and temporaries count); an observer that promoted the weak_ptr is the arbitrary constant ext_owner. */
#ifndef RG_ID_H
#define RG_ID_H
#include <stdlib.h>

typedef struct { size_t *ptr; uint64_t gen; size_t val; /* ghost mirror of *ptr (the pointee is written once, by make_shared) */ } shared_ptr_size;
typedef struct { uint64_t gen; _Bool bound; } weak_ptr_size;
typedef uint64_t thread_id;
typedef int hash_thread_id;

struct id_state {
  _Bool own;            /* I hold a reservation */
  size_t my_id;
  size_t other_id;      /* skolem: slot of another thread that is still running */
  uint64_t my_gen;      /* generation of the heartbeat my HeartBeater owns */
  _Bool my_gen_alive;   /* == (my_owners > 0): the library still holds an owner of my heartbeat */
  uint64_t my_owners;   /* shared_ptr objects of the library (member, copies, temporaries) that own my generation */
  _Bool ext_owner;      /* arbitrary constant: an observer promoted GetHeartBeat() (weak_ptr::lock) and keeps that reference */
  uint64_t gen_counter;
  uint64_t nops;        /* atomic operations I performed on the flags */
  uint64_t nclears;
  _Bool claimed_from_free; /* my last claim was a 0 -> 1 transition performed by me */

};
extern struct id_state ID;
/* bounded probe-coverage group (C14): every slot but id_free_slot is permanently reserved, id_free_slot is not stolen */
extern _Bool id_cover_mode;
extern size_t id_free_slot;
#ifdef VERIF_ID_CONCRETE
/* bounded stand-ins with a CONCRETE capacity VERIF_K: the flag array is the real array of the extracted text */
extern atomic_b *id_vec_base;   /* set by the harness to &_id_vec[0] of the extracted text */
#define ID_CAP ((size_t)VERIF_K)
#else
extern atomic_b *_id_vec;
extern const size_t kMaxThreadNum;
#define ID_CAP kMaxThreadNum
#endif

#pragma CPROVER check push
#pragma CPROVER check disable "unsigned-overflow"
#pragma CPROVER check disable "conversion"
#pragma CPROVER check disable "pointer-overflow"

#define ID_INV (ID_CAP >= 1 && ID.other_id < ID_CAP && (!ID.own || (ID.my_id < ID_CAP && ID.my_id != ID.other_id)) && (!ID.my_gen_alive || ID.own) && ID.my_gen_alive == (ID.my_owners > 0) && ID.my_owners < 8)

#ifdef VERIF_ID_CONCRETE
static inline size_t id_index(const atomic_b *a)
{
  /* the real array of the extracted text (CBMC's own bounds and pointer checks guard the access itself) */
  __CPROVER_assert(__CPROVER_same_object(a, id_vec_base), "[C05][C14][safety] flag access inside the id array");
  size_t i = ((size_t)__CPROVER_POINTER_OFFSET(a) - (size_t)__CPROVER_POINTER_OFFSET(id_vec_base)) / sizeof(atomic_b);
  __CPROVER_assert(i < ID_CAP, "[C05][C14][safety] flag index below the capacity");
  return i;
}
#else
static inline size_t id_index(const atomic_b *a)
{
  __CPROVER_assert(__CPROVER_same_object(a, _id_vec), "[C05][C14][safety] flag access inside the id array");
  size_t off = (size_t)__CPROVER_POINTER_OFFSET(a) - (size_t)__CPROVER_POINTER_OFFSET(_id_vec);
  size_t i = off / sizeof(atomic_b);
  __CPROVER_assert(i < ID_CAP, "[C05][C14][safety] flag index below the capacity");
  return i;
}

#endif

/* RELY for one cell */
static inline void id_env_cell(atomic_b *a, size_t i)
{
  if(id_cover_mode) { a->v = (ID.own && i == ID.my_id) || i != id_free_slot; return; }
  if(ID.own && i == ID.my_id) { a->v = 1; return; }      /* only the owner clears its flag */
  if(i == ID.other_id) { a->v = 1; return; }              /* the other thread is still running */
  a->v = nondet_bool();
}

static inline _Bool atomic_b_load(atomic_b *a, int mo)
{
  size_t i = id_index(a);
  id_env_cell(a, i);
  ID.nops++;
  return a->v;
}

static inline _Bool atomic_b_exchange(atomic_b *a, _Bool v, int mo)
{
  size_t i = id_index(a);
  id_env_cell(a, i);
  ID.nops++;
  _Bool old = a->v;
  a->v = v;
  if(v && !old)
  {
    /* GUARANTEE: a flag becomes true only in the claim step of the thread that then owns it */
    __CPROVER_assert(!ID.own, "[C05][G.claim] a thread claims at most one id at a time");
    __CPROVER_assert(VERIF_IS_ACQUIRE(mo), "[C15][C04][acquire] the claiming exchange acquires: it pairs with the release store of the exiting owner, after which that owner's heartbeat is expired");
    ID.own = 1;
    ID.my_id = i;
    ID.claimed_from_free = 1;
  }
  if(!v) __CPROVER_assert(0, "[C05][C14][G.clear-own] exchange(false) is not a modelled way to release an id");
  return old;
}

static inline void atomic_b_store(atomic_b *a, _Bool v, int mo)
{
  size_t i = id_index(a);
  id_env_cell(a, i);
  ID.nops++;
  if(!v)
  {
    __CPROVER_assert(ID.own && i == ID.my_id, "[C05][C14][G.clear-own] a thread clears only the reservation flag it owns");
    __CPROVER_assert(VERIF_IS_RELEASE(mo), "[C15][C04][publish] the reservation flag is released with release order (the expiry of the heartbeat happens-before the next owner's claim)");
    __CPROVER_assert(!ID.my_gen_alive, "[C15][C04][G.exit-order] the reservation flag is released only after this thread's heartbeat has expired");
    ID.own = 0;
    ID.nclears++;
  }
  else
  {
    __CPROVER_assert(0, "[C05][G.claim] a plain store(true) cannot claim an id safely (no test-and-set)");
  }
  a->v = v;
}

/* ---- shared_ptr<size_t> / weak_ptr<size_t>: ASSUMED library contract ------------------------------ */
static inline shared_ptr_size shared_ptr_size_default(void) { shared_ptr_size p; p.ptr = 0; p.gen = 0; p.val = 0; return p; }
static inline weak_ptr_size weak_ptr_size_default(void) { weak_ptr_size w; w.gen = 0; w.bound = 0; return w; }
static inline int64_t shared_ptr_size_use_count(const shared_ptr_size *p)
{
  if(!p->ptr) return 0;
  /* all owners of the control block: those held by the library plus a promoted observer reference, if any */
  if(p->gen == ID.my_gen) return (int64_t)ID.my_owners + (ID.ext_owner ? 1 : 0);
  return 1;
}
static inline size_t *shared_ptr_size_deref(shared_ptr_size *p)
{
  __CPROVER_assert(p->ptr != 0, "[C05][C15][safety] dereference of an empty shared_ptr");
  return p->ptr;
}
static inline shared_ptr_size make_shared_size(size_t v)
{
  shared_ptr_size p;
  p.ptr = malloc(sizeof(size_t));
  /* ASSUME[library]: allocation succeeds */
  __CPROVER_assume(p.ptr != 0);
  *p.ptr = v;
  p.val = v;
  ID.gen_counter++;
  p.gen = ID.gen_counter;
  ID.my_gen = p.gen;
  ID.my_gen_alive = 1;
  ID.my_owners = 1;
  return p;
}
static inline void shared_ptr_size_release(shared_ptr_size *p)
{
  if(p->ptr)
  {
    /* one owner goes away; with the last owner of the library the generation dies (weak_ptr::expired() becomes true
     * unless an observer holds a promoted reference) */
    if(p->gen == ID.my_gen && ID.my_owners > 0)
    {
      ID.my_owners--;
      if(ID.my_owners == 0) ID.my_gen_alive = 0;
    }
    p->ptr = 0;
  }
}
static inline void shared_ptr_size_dtor(shared_ptr_size *p) { shared_ptr_size_release(p); }
static inline void shared_ptr_size_reset(shared_ptr_size *p) { shared_ptr_size_release(p); }
static inline shared_ptr_size *shared_ptr_size_move_assign(shared_ptr_size *dst, shared_ptr_size *src)
{
  shared_ptr_size_release(dst);
  *dst = *src;
  src->ptr = 0; /* moved-from: destroying it has no effect */
  return dst;
}
static inline shared_ptr_size shared_ptr_size_copy(const shared_ptr_size *p)
{
  shared_ptr_size q = *p; /* copy construction: one more owner */
  if(q.ptr && q.gen == ID.my_gen && ID.my_gen_alive) ID.my_owners++;
  return q;
}
static inline shared_ptr_size shared_ptr_size_ctor_move(shared_ptr_size *p)
{
  shared_ptr_size q = *p; /* ownership moves into the new object */
  p->ptr = 0;
  return q;
}
static inline shared_ptr_size shared_ptr_size_exchange_null(shared_ptr_size *p)
{
  shared_ptr_size old = *p; /* ownership moves into the returned value */
  p->ptr = 0;
  return old;
}
static inline weak_ptr_size weak_ptr_size_from_shared(const shared_ptr_size *p)
{
  weak_ptr_size w;
  w.gen = p->gen;
  w.bound = p->ptr != 0;
  return w;
}
static inline _Bool weak_ptr_size_expired(const weak_ptr_size *w)
{
  if(!w->bound) return 1;
  if(w->gen == ID.my_gen) return !ID.my_gen_alive && !ID.ext_owner;
  return nondet_bool(); /* a generation of another thread: unknown here */
}
static inline shared_ptr_size weak_ptr_size_lock(const weak_ptr_size *w)
{
  shared_ptr_size p = shared_ptr_size_default();
  if(w->bound && w->gen == ID.my_gen && ID.my_gen_alive && ID.my_owners < 7)
  {
    p.ptr = malloc(sizeof(size_t));
    /* ASSUME[library]: allocation succeeds */
    __CPROVER_assume(p.ptr != 0);
    p.gen = w->gen; p.val = ID.my_id; *p.ptr = p.val;
    ID.my_owners++;   /* a promoted reference held by the library itself is one more owner */
  }
  return p;
}
static inline _Bool shared_ptr_size_bool(const shared_ptr_size *p) { return p->ptr != 0; }
static inline weak_ptr_size *weak_ptr_size_assign(weak_ptr_size *dst, weak_ptr_size src) { *dst = src; return dst; }
static inline void weak_ptr_size_dtor(weak_ptr_size *w) { (void)w; }

/* std::this_thread::get_id / std::hash<thread::id>: any value */
static inline thread_id verif_this_thread_get_id(void) { return nondet_u64(); }
static inline size_t hash_thread_id_call(thread_id t) { (void)t; return nondet_size(); }
/* a % b by a symbolic divisor: ASSUMED machine-arithmetic contract (divisor non-zero is asserted) */
static inline uint64_t verif_mod_uint64_t(uint64_t a, uint64_t b)
{
  __CPROVER_assert(b != 0, "[C05][safety] modulo by zero");
  uint64_t r = nondet_u64();
  /* ASSUME[machine-arithmetic]: a % b < b and a % b <= a (the 64-bit remainder circuit by a symbolic divisor times out on every back end) */
  __CPROVER_assume(r < b && r <= a);
  return r;
}

#pragma CPROVER check pop
#endif
