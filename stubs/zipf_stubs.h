/* Stubs for the Zipf generators (src/random/zipf.cpp, include/dbgroup/random/zipf.hpp).
 * std::vector<double> is a real heap block (symbolic length); pow/log are uninterpreted functions with an
 * assumed sign/NaN contract; uniform_real_distribution{0,1} returns an arbitrary double in [0,1). */
#ifndef ZIPF_STUBS_H
#define ZIPF_STUBS_H
#include <stdlib.h>

typedef struct {
  double *data;
  size_t size;
  size_t cap;
  /* ghost: when set, the contents are an abstract WELL-FORMED table and every access instantiates the quantified
   * well-formedness facts at the touched index; never set while the table is being built */
  _Bool wf;
} vec_double;

typedef struct { double d[100]; } arr_double_100;
typedef struct { uint64_t state; } rand_engine;
typedef struct { double a, b; } uniform_real_dist;
extern double g_last_u;

double __CPROVER_uninterpreted_pow(double, double);
double __CPROVER_uninterpreted_log(double);

#pragma CPROVER check push
#pragma CPROVER check disable "unsigned-overflow"
#pragma CPROVER check disable "conversion"

static inline vec_double vec_double_default(void) { vec_double v; v.data = 0; v.size = 0; v.cap = 0; v.wf = 0; return v; }
static inline size_t vec_double_size(const vec_double *v) { return v->size; }

static inline _Bool vec_double_empty(const vec_double *v) { return v->size == 0; }
static inline double *vec_double_at(vec_double *v, size_t i);
static inline double *vec_double_back(vec_double *v) { return vec_double_at(v, v->size - 1); }
static inline double *vec_double_front(vec_double *v) { return vec_double_at(v, 0); }
static inline double *vec_double_at(vec_double *v, size_t i)
{
  __CPROVER_assert(i < v->size, "[C06][C18][safety] vector::at index in range (would throw std::out_of_range)");
  if(v->wf)
  {
    /* ASSUME[table-well-formed]: on-demand instantiation of the quantified precondition "no NaN, adjacent entries
     * non-decreasing, last entry 1.0" -- proved for an arbitrary index as post-condition of UpdateCDF (zipf.*UpdateCDF groups) */
    __CPROVER_assume(v->data[i] == v->data[i]);
    __CPROVER_assume(i == 0 || v->data[i - 1] <= v->data[i]);
    __CPROVER_assume(i + 1 != v->size || v->data[i] == 1.0);
  }
  return &v->data[i];
}

static inline void vec_double_reserve(vec_double *v, size_t n)
{
  if(n > v->cap)
  {
    double *p = malloc(n * sizeof(double));
    /* ASSUME[library]: allocation succeeds (bad_alloc is not modelled); existing elements are moved */
    __CPROVER_assume(p != 0);
    __CPROVER_assert(v->size == 0, "[model] reserve is only modelled for an empty vector");
    v->data = p;
    v->cap = n;
  }
}

static inline void vec_double_emplace_back(vec_double *v, double x)
{
  __CPROVER_assert(v->size < v->cap, "[model] emplace_back within the reserved capacity (no reallocation modelled)");
  v->data[v->size] = x;
  v->size = v->size + 1;
}

/* v = {x}  (initializer_list assignment) */
static inline vec_double *vec_double_assign1(vec_double *v, double x)
{
  double *p = malloc(sizeof(double));
  /* ASSUME[library]: allocation succeeds */
  __CPROVER_assume(p != 0);
  p[0] = x;
  v->data = p;
  v->size = 1;
  v->cap = 1;
  v->wf = 0;
  return v;
}

static inline double *arr_double_100_at(arr_double_100 *a, size_t i)
{
  __CPROVER_assert(i < 100, "[C06][C18][safety] array::at index in range (would throw std::out_of_range)");
  return &a->d[i];
}
static inline arr_double_100 arr_double_100_default(void)
{
  arr_double_100 a = {{0.0}}; /* value-initialised: all elements 0.0 */
  return a;
}
static inline arr_double_100 *arr_double_100_assign1(arr_double_100 *a, double x)
{
  arr_double_100 z = {{0.0}};
  z.d[0] = x;
  *a = z;
  return a;
}

static inline uniform_real_dist uniform_real_dist_init(double a, double b) { uniform_real_dist d; d.a = a; d.b = b; return d; }
static inline double uniform_real_dist_call(uniform_real_dist *d, rand_engine *g)
{
  double u = nondet_double();
  /* ASSUME[library]: uniform_real_distribution<double>{0,1}(g) returns a value in [0, 1) (libstdc++ generate_canonical) and only advances the engine */
  __CPROVER_assume(0.0 <= u && u < 1.0);
  g->state = nondet_u64();
  g_last_u = u;
  return u;
}

/* pow / log: deterministic but unknown (uninterpreted); assumed contract for the arguments the code uses
 * (base >= 1 integral, finite non-NaN exponent) */
static inline double verif_pow(double base, double e)
{
  double r = __CPROVER_uninterpreted_pow(base, e);
  /* ASSUME[libm]: pow(base>=1, e) is not NaN and positive (possibly +inf); pow(1, e) == 1; pow(base>=1, e>=0) >= 1 */
  __CPROVER_assume(!(base >= 1.0 && e == e) || (r == r && r > 0.0));
  __CPROVER_assume(!(base == 1.0) || r == 1.0);
  __CPROVER_assume(!(base >= 1.0 && e >= 0.0) || r >= 1.0);
  return r;
}
/* fabs: exact (sign bit cleared) */
static inline double verif_fabs(double x) { return (x != x) ? x : (x < 0.0 ? -x : (x == 0.0 ? 0.0 : x)); }
static inline double verif_log(double x)
{
  double r = __CPROVER_uninterpreted_log(x);
  /* ASSUME[libm]: log(x>=1) is not NaN and >= 0 */
  __CPROVER_assume(!(x >= 1.0) || (r == r && r >= 0.0));
  return r;
}

extern _Bool verif_thrown;
extern double g_last_u;
#pragma CPROVER check pop
#endif
