/* Rely/guarantee atomics for PessimisticLock (-DVERIF_LOCK_PESS) and
 * OptimisticLock (-DVERIF_LOCK_OPT): DESIGN.md section 2.4.
 *
 * Every atomic operation on the tracked lock word is
 *     rg_env();  <the operation on the latest value>;  rg_step()/rg_note_load();
 * rg_env   = RELY: any number of steps of all other threads (havoc under the
 *            global invariant, my holdings untouched),
 * rg_step  = GUARANTEE: the ghost transition is derived from the old and the
 *            new word value and the G.* obligations are asserted.
 * Operations on any other atomic object (a second lock) are untracked: its
 * value is arbitrary at every access and nothing is asserted about it.
 *
 * Assertion descriptions start with tags "[Cxx]...[name]"; the driver maps
 * obligations to properties through them. */
#ifndef RG_LOCK_H
#define RG_LOCK_H

#pragma CPROVER check push
#pragma CPROVER check disable "unsigned-overflow"
#pragma CPROVER check disable "signed-overflow"
#pragma CPROVER check disable "conversion"

#if defined(VERIF_LOCK_PESS)
#define T_X(w) ((uint64_t)((w) >> 63))
#define T_SIX(w) ((uint64_t)(((w) >> 62) & 1UL))
#define T_S(w) ((uint64_t)((w) & ((1UL << 62) - 1UL)))
#define T_VER(w) ((uint32_t)0)
#define S_MAX ((1UL << 62) - 1UL)
#define RG_HAS_VERSION 0
#else
#define T_X(w) ((uint64_t)((w) >> 63))
#define T_SIX(w) ((uint64_t)(((w) >> 62) & 1UL))
#define T_S(w) ((uint64_t)(((w) >> 32) & ((1UL << 30) - 1UL)))
#define T_VER(w) ((uint32_t)((w) & 0xffffffffUL))
#define S_MAX ((1UL << 30) - 1UL)
#define RG_HAS_VERSION 1
#endif

enum { RG_MODE_S = 0, RG_MODE_SIX = 1, RG_MODE_X = 2 };

struct rg_state {
  /* what I (the thread running the function under proof) hold on the tracked lock */
  uint64_t mS;
  uint64_t mSIX;
  uint64_t mX;
  /* frame ghosts: number of atomic operations / of modifying operations I performed on the tracked word */
  uint64_t nops;
  uint64_t nwrites;
  /* C02 enabledness lemmas: when set, the environment is quiet and compare_exchange_weak does not fail spuriously */
  _Bool quiet;
  /* C10: set by the harness while an upgrade/downgrade of an owning guard runs */
  _Bool in_conv;
  /* C03/C09 (OptimisticLock): number of exclusive sections ended so far; tracked (version, commits) pair */
  uint64_t commits;
  uint32_t tver;
  uint64_t tcommits;
  /* values recorded for post-conditions */
  uint64_t last_load;     /* value returned by my last load (or failed CAS) */
  _Bool last_load_acq;    /* that load was an acquire operation */
  uint64_t load_commits;  /* commits at that instant */
  uint64_t rmw_old;       /* value my last successful read-modify-write replaced */
  uint64_t rmw_commits;
  uint64_t last_written;  /* value of my last successful write */
  /* C08: one arbitrary earlier section E of another thread (skolem) */
  uint8_t E_mode;
  _Bool E_done;     /* E has completed */
  _Bool E_in_word;  /* E's view is attached to the current value of the word (release sequence) */
  _Bool E_in_me;    /* E's end happens-before my current point */
  _Bool E_pending;  /* seen by a relaxed load, becomes E_in_me at an acquire fence */
  _Bool rel_fence;  /* I executed a release fence (later relaxed writes publish my view) */
};
extern struct rg_state G;
extern atomic_u64 *g_word; /* the tracked lock word */

#define RG_MINE_NONE (G.mS == 0 && G.mSIX == 0 && G.mX == 0)

/* core invariant over (word, my holdings): compatibility matrix + "mine <= totals" */
#define RG_INV_CORE(w)                                                                                      \
  ((!T_X(w) || (T_S(w) == 0 && T_SIX(w) == 0)) && G.mS <= T_S(w) && G.mSIX <= T_SIX(w) && G.mX <= T_X(w) && \
   G.mSIX <= 1 && G.mX <= 1)
/* C03: once an exclusive section ended after the tracked pair was taken, the version differs from the tracked one
 * (inductive under the property's hypothesis that no earlier value is republished) */
#if RG_HAS_VERSION
#define RG_INV_VER(w) (G.commits >= G.tcommits && G.commits <= (1UL << 62) && (G.commits == G.tcommits || T_VER(w) != G.tver))
#else
#define RG_INV_VER(w) 1
#endif
#define RG_INV(w) (RG_INV_CORE(w) && RG_INV_VER(w))

/* C08 view invariant:
 *  K: a completed section is published in the word;
 *  H: a completed section that conflicts with something I hold happened before my grant */
#define RG_E_CONFLICTS(mode) \
  ((mode) == RG_MODE_X ? 1 : (mode) == RG_MODE_SIX ? (G.E_mode != RG_MODE_S) : (G.E_mode == RG_MODE_X))
#define RG_E_CONFLICTS_MINE \
  ((G.mX > 0) || (G.mSIX > 0 && G.E_mode != RG_MODE_S) || (G.mS > 0 && G.E_mode == RG_MODE_X))
#define RG_VIEW_INV \
  (G.E_mode <= RG_MODE_X && (!G.E_in_word || G.E_done) && (!G.E_done || G.E_in_word) && (!(G.E_done && RG_E_CONFLICTS_MINE) || G.E_in_me))

static inline _Bool rg_tracked(const atomic_u64 *a) { return a == g_word; }

/* ---- RELY ------------------------------------------------------------------ */
static inline void rg_env(void)
{
  if(G.quiet)
  {
    /* enabledness lemmas (C02): no interference during this one evaluation; ASSUME[protocol c]: counter not saturated */
    __CPROVER_assume(T_S(g_word->v) < S_MAX && G.commits < (1UL << 62));
    return;
  }
  uint64_t o = g_word->v;
  uint64_t w = nondet_u64();
  uint64_t c = nondet_u64();
  /* ASSUME[rely]: commits only grow; others change the version only by ending an exclusive section
   * (their G.version); while I hold any grant nobody else can hold X, hence no commit and no version change
   * (lemma rg_lemma_rely in the spec file) */
  __CPROVER_assume(c >= G.commits && c < (1UL << 62)); /* ASSUME[protocol c]: fewer than 2^62 exclusive sections in a run (ghost counter does not wrap) */
  __CPROVER_assume(T_VER(w) == T_VER(o) || c > G.commits);
  __CPROVER_assume(RG_MINE_NONE || (c == G.commits && T_VER(w) == T_VER(o)));
  /* ASSUME[rely]: if I hold X nobody else may touch the word at all */
  __CPROVER_assume(G.mX == 0 || w == o);
  /* the skolem section E of another thread may complete now -- only if it can be active next to what I hold;
   * ASSUME[rely, C08 induction]: a completing section publishes itself (obligation [C08][publish] of every function) */
  if(!G.E_done && nondet_bool())
  {
    __CPROVER_assume(!RG_E_CONFLICTS_MINE);
    __CPROVER_assume(G.E_mode != RG_MODE_X || c > G.commits); /* an exclusive section that completes is a commit */
    G.E_done = 1;
    G.E_in_word = 1;
  }
  /* ASSUME[rely]: others preserve the invariant and never take away what I hold;
   * ASSUME[protocol c]: the shared counter never saturates (fewer than S_MAX simultaneous shared holders) */
  G.commits = c;
  __CPROVER_assume(RG_INV(w) && T_S(w) < S_MAX);
  g_word->v = w;
}

/* ---- GUARANTEE ---------------------------------------------------------------- */
/* the single-step guarantee as pure predicates over (old word, new word, holdings of the stepping thread);
 * used by rg_step (asserted) and by the meta-lemma groups (assumed for "the other thread") */
#define RG_D_S(o, n) ((int64_t)T_S(n) - (int64_t)T_S(o))
#define RG_D_SIX(o, n) ((int64_t)T_SIX(n) - (int64_t)T_SIX(o))
#define RG_D_X(o, n) ((int64_t)T_X(n) - (int64_t)T_X(o))
#define RG_OWN_S(o, n, hS) (RG_D_S(o, n) >= 0 || (hS) >= (uint64_t)(-RG_D_S(o, n)))
#define RG_OWN_SIX(o, n, hSIX) (RG_D_SIX(o, n) >= 0 || (hSIX) >= 1)
#define RG_OWN_X(o, n, hX) (RG_D_X(o, n) >= 0 || (hX) >= 1)
#define RG_LEGAL_S(o, n, hS, hSIX, hX) (!(RG_D_S(o, n) > 0) || (T_X(o) - (hX)) == 0)
#define RG_LEGAL_SIX(o, n, hS, hSIX, hX) (!(RG_D_SIX(o, n) > 0) || ((T_SIX(o) - (hSIX)) == 0 && (T_X(o) - (hX)) == 0))
#define RG_LEGAL_X(o, n, hS, hSIX, hX) \
  (!(RG_D_X(o, n) > 0) || ((T_S(o) - (hS)) == 0 && (T_SIX(o) - (hSIX)) == 0 && (T_X(o) - (hX)) == 0))
#define RG_VERSION_OK(o, n) (T_VER(n) == T_VER(o) || RG_D_X(o, n) < 0)
#define RG_INV_CORE_H(w, hS, hSIX, hX) \
  ((!T_X(w) || (T_S(w) == 0 && T_SIX(w) == 0)) && (hS) <= T_S(w) && (hSIX) <= T_SIX(w) && (hX) <= T_X(w) && (hSIX) <= 1 && (hX) <= 1)

static inline void rg_step(uint64_t o, uint64_t n, int mo, _Bool is_rmw)
{
  int64_t dS = RG_D_S(o, n), dSIX = RG_D_SIX(o, n), dX = RG_D_X(o, n);
  G.nops++;
  G.nwrites++;
  G.last_written = n;
  /* G.own: I only give up what I hold */
  __CPROVER_assert(RG_OWN_S(o, n, G.mS), "[C01][C07][G.own] a step removes shared grants only from my own holdings (no double release)");
  __CPROVER_assert(RG_OWN_SIX(o, n, G.mSIX), "[C01][C07][G.own] a step removes SIX only if I hold it (no double release)");
  __CPROVER_assert(RG_OWN_X(o, n, G.mX), "[C01][C07][G.own] a step removes X only if I hold it (no double release)");
  /* G.legal: the compatibility matrix at the instant of the grant */
  __CPROVER_assert(RG_LEGAL_S(o, n, G.mS, G.mSIX, G.mX), "[C01][G.legal] S is granted only while no other thread holds X");
  __CPROVER_assert(RG_LEGAL_SIX(o, n, G.mS, G.mSIX, G.mX), "[C01][C10][G.legal] SIX is granted only while no other thread holds SIX or X");
  __CPROVER_assert(RG_LEGAL_X(o, n, G.mS, G.mSIX, G.mX), "[C01][C10][G.legal] X is granted only while no other thread holds anything");
  /* G.version (C09): the version changes only in a step that ends my exclusive grant */
  __CPROVER_assert(RG_VERSION_OK(o, n), "[C09][G.version] the version changes only when an exclusive grant ends");
  /* C08 views */
  {
    _Bool rel = VERIF_IS_RELEASE(mo) || G.rel_fence;
    _Bool weaker = (dX < 0) || (dSIX < 0 && dX <= 0) || (dS < 0); /* afterwards some conflicting mode becomes grantable */
    if(is_rmw)
    {
      if(VERIF_IS_ACQUIRE(mo)) G.E_in_me = G.E_in_me || G.E_in_word; else G.E_pending = G.E_pending || G.E_in_word;
    }
    else
    {
      G.E_in_word = rel ? (G.E_done && G.E_in_me) : 0; /* a plain store heads a new release sequence */
    }
    __CPROVER_assert(!weaker || rel, "[C08][publish] an operation that ends (or weakens) my grant must be a release operation so that my section is published to later conflicting sections");
    __CPROVER_assert(!(dS > 0 && G.E_done && G.E_mode == RG_MODE_X) || G.E_in_me, "[C08][acquire] S grant: every completed exclusive section happens-before it");
    __CPROVER_assert(!(dSIX > 0 && G.E_done && G.E_mode != RG_MODE_S) || G.E_in_me, "[C08][acquire] SIX grant: every completed SIX/X section happens-before it");
    __CPROVER_assert(!(dX > 0 && G.E_done) || G.E_in_me, "[C08][acquire] X grant: every completed section (S, SIX, X) happens-before it");
    __CPROVER_assert(!G.E_done || G.E_in_word, "[C08][K] my write keeps completed sections published in the word");
  }
  /* ghost transition, derived from the values */
  G.mS = (uint64_t)((int64_t)G.mS + dS);
  G.mSIX = (uint64_t)((int64_t)G.mSIX + dSIX);
  G.mX = (uint64_t)((int64_t)G.mX + dX);
  if(dX < 0)
  {
    G.commits++;
#if RG_HAS_VERSION
    /* ASSUME[hypothesis of C03]: SetVersion is not used to republish the tracked earlier value */
    __CPROVER_assume(T_VER(n) != G.tver);
#endif
  }
  /* G.nogap (C10) */
  __CPROVER_assert(!G.in_conv || (G.mSIX + G.mX >= 1), "[C10][G.nogap] during an upgrade/downgrade my holdings of {SIX, X} never become empty");
  /* G.inv */
  __CPROVER_assert(RG_INV_CORE(n), "[C01][G.inv] the step re-establishes the lock-word invariant (matrix, mine <= totals)");
}

static inline void rg_note_load(uint64_t v, int mo)
{
  G.nops++;
  G.last_load = v;
  G.last_load_acq = VERIF_IS_ACQUIRE(mo);
  G.load_commits = G.commits;
  if(VERIF_IS_ACQUIRE(mo)) G.E_in_me = G.E_in_me || G.E_in_word; else G.E_pending = G.E_pending || G.E_in_word;
}

/* ---- the atomic operations ------------------------------------------------------ */
static inline uint64_t atomic_u64_load(atomic_u64 *a, int mo)
{
  if(!rg_tracked(a)) { a->v = nondet_u64(); return a->v; }
  rg_env();
  uint64_t v = a->v;
  rg_note_load(v, mo);
  return v;
}

static inline void atomic_u64_store(atomic_u64 *a, uint64_t v, int mo)
{
  if(!rg_tracked(a)) { a->v = v; return; }
  rg_env();
  uint64_t o = a->v;
  a->v = v;
  rg_step(o, v, mo, 0);
}

static inline uint64_t atomic_u64_exchange(atomic_u64 *a, uint64_t v, int mo)
{
  if(!rg_tracked(a)) { uint64_t r = nondet_u64(); a->v = v; return r; }
  rg_env();
  uint64_t o = a->v;
  a->v = v;
  G.rmw_old = o; G.rmw_commits = G.commits;
  rg_step(o, v, mo, 1);
  return o;
}

static inline _Bool atomic_u64_compare_exchange_weak(atomic_u64 *a, uint64_t *expected, uint64_t desired, int mo_s, int mo_f)
{
  if(!rg_tracked(a)) { uint64_t cur = nondet_u64(); if(cur == *expected && nondet_bool()) { a->v = desired; return 1; } *expected = cur; return 0; }
  rg_env();
  uint64_t o = a->v;
  if(o == *expected && (G.quiet || nondet_bool())) /* may fail spuriously */
  {
    a->v = desired;
    G.rmw_old = o; G.rmw_commits = G.commits;
    rg_step(o, desired, mo_s, 1);
    return 1;
  }
  *expected = o;
  rg_note_load(o, mo_f);
  return 0;
}

static inline _Bool atomic_u64_compare_exchange_strong(atomic_u64 *a, uint64_t *expected, uint64_t desired, int mo_s, int mo_f)
{
  if(!rg_tracked(a)) { uint64_t cur = nondet_u64(); if(cur == *expected) { a->v = desired; return 1; } *expected = cur; return 0; }
  rg_env();
  uint64_t o = a->v;
  if(o == *expected)
  {
    a->v = desired;
    G.rmw_old = o; G.rmw_commits = G.commits;
    rg_step(o, desired, mo_s, 1);
    return 1;
  }
  *expected = o;
  rg_note_load(o, mo_f);
  return 0;
}

#define RG_FETCH_OP(NAME, EXPR)                                                        \
  static inline uint64_t atomic_u64_##NAME(atomic_u64 *a, uint64_t v, int mo)          \
  {                                                                                    \
    if(!rg_tracked(a)) { uint64_t r = nondet_u64(); a->v = nondet_u64(); return r; }   \
    rg_env();                                                                          \
    uint64_t o = a->v;                                                                 \
    uint64_t n = (EXPR);                                                               \
    a->v = n;                                                                          \
    G.rmw_old = o; G.rmw_commits = G.commits;                                          \
    rg_step(o, n, mo, 1);                                                              \
    return o;                                                                          \
  }
RG_FETCH_OP(fetch_add, o + v)
RG_FETCH_OP(fetch_sub, o - v)
RG_FETCH_OP(fetch_xor, o ^ v)
RG_FETCH_OP(fetch_or, o | v)
RG_FETCH_OP(fetch_and, o & v)

static inline void atomic_thread_fence_stub(int mo)
{
  if(VERIF_IS_ACQUIRE(mo)) { G.E_in_me = G.E_in_me || G.E_pending; }
  if(VERIF_IS_RELEASE(mo)) { G.rel_fence = 1; }
}

/* harness helper: arbitrary ghost state and word (the contracts' requires clauses constrain them) */
static inline void rg_havoc_all(atomic_u64 *word)
{
  g_word = word;
  word->v = nondet_u64();
  struct rg_state s;
  G = s; /* uninitialised automatic object = nondeterministic in CBMC */
  G.rel_fence = 0;
  G.E_pending = 0;
}

#pragma CPROVER check pop

/* admission = the compatibility matrix for a fresh request (C02 enabledness: a request is admitted as soon as
 * nothing conflicting is held) */
#define RG_ADMIT_S(w) (T_X(w) == 0)
#define RG_ADMIT_SIX(w) (T_X(w) == 0 && T_SIX(w) == 0)
#define RG_ADMIT_X(w) (T_X(w) == 0 && T_SIX(w) == 0 && T_S(w) == 0)

/* ---- contract vocabulary --------------------------------------------------------- */
#define RG_FRAME __CPROVER_object_whole(&G), g_word->v
#define RG_PRE_BASE (RG_INV(g_word->v) && RG_VIEW_INV && G.mS < (1UL << 20))
#define RG_PRE (RG_PRE_BASE && !G.in_conv)
#define RG_OLD_MINE_NONE (__CPROVER_old(G.mS) == 0 && __CPROVER_old(G.mSIX) == 0 && __CPROVER_old(G.mX) == 0)
#endif
