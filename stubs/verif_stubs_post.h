/* Part of the stub library that needs the extracted record definitions. */
#ifndef VERIF_STUBS_POST_H
#define VERIF_STUBS_POST_H
#if defined(VERIF_LOCK_MCS)
#include "rg_mcs_post.h"
#elif defined(VERIF_EPOCH)
#include "rg_epoch_post.h"
#elif defined(VERIF_NATIVE_EPOCH)
#include "native_epoch_post.h"
#endif
#endif
