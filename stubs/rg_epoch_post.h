/* part of the epoch stubs that needs the extracted record definitions */
#ifndef RG_EPOCH_POST_H
#define RG_EPOCH_POST_H
extern EpochManager the_mgr;
extern vec_size the_vec;     /* the per-epoch vector of the epoch being published */

#pragma CPROVER check push
#pragma CPROVER check disable "unsigned-overflow"
#pragma CPROVER check disable "conversion"
#pragma CPROVER check disable "pointer-overflow"

static inline size_t ep_slot_of_weak(const weak_ptr_size *w)
{
  size_t off = (size_t)__CPROVER_POINTER_OFFSET(w) - (size_t)__CPROVER_POINTER_OFFSET(the_mgr.tls_fields_);
  return off / sizeof(EpochManager_TLSEpoch);
}

/* weak_ptr::expired() of a slot's heartbeat */
static inline _Bool weak_ptr_size_expired(const weak_ptr_size *w)
{
  __CPROVER_assert(__CPROVER_same_object(w, the_mgr.tls_fields_), "[C04][safety] heartbeat of a slot of this manager");
  size_t i = ep_slot_of_weak(w);
  __CPROVER_assert(i < kMaxThreadNum, "[C04][C20][safety] slot index below the capacity");
  if(EP.role == EP_WORKER)
  {
    /* my own slot: the stored heartbeat is mine (then it is alive as long as I run) or belongs to an earlier owner
     * of my id, which -- C15 -- is expired by the time I was given the id */
    __CPROVER_assert(i == EP.my_slot, "[C04][G.slot-owner] a worker only looks at its own slot");
    if(w->bound && w->gen == EP.my_gen) return !EP.my_gen_alive;
    return 1;
  }
  /* coordinator: the tracked guard's thread is alive; every other heartbeat is arbitrary */
  _Bool expired = (EP.t_active && i == EP.t_slot) ? 0 : nondet_bool();
  EP.scan_slot = i;
  EP.scan_alive = !expired;
  return expired;
}

/* weak_ptr::lock() on a slot's heartbeat.  The manager must never do this: a promoted reference keeps the heartbeat of
 * an exited thread alive, and CreateEpochGuard relies on "a heartbeat stored in my slot is mine or EXPIRED" (C15) to
 * re-bind a reused slot. */
static size_t ep_promoted_dummy;
static inline shared_ptr_size weak_ptr_size_lock(const weak_ptr_size *w)
{
  __CPROVER_assert(0, "[C04][G.no-promotion] the epoch manager never promotes a thread's heartbeat (weak_ptr::lock would keep the heartbeat of an exited thread alive, so the thread that reuses its id finds the slot 'alive' and does not re-bind it)");
  shared_ptr_size p = shared_ptr_size_default();
  if(!weak_ptr_size_expired(w)) { p.ptr = &ep_promoted_dummy; p.gen = w->gen; }
  return p;
}
static inline _Bool shared_ptr_size_bool(const shared_ptr_size *p) { return p->ptr != 0; }
static inline void shared_ptr_size_dtor(shared_ptr_size *p) { p->ptr = 0; }

/* load of a slot's pinned epoch */
uint64_t ep_slot_load(atomic_u64 *a)
{
  __CPROVER_assert(__CPROVER_same_object(a, the_mgr.tls_fields_), "[C04][safety] pinned epoch of a slot of this manager");
  size_t i = ((size_t)__CPROVER_POINTER_OFFSET(a) - (size_t)__CPROVER_POINTER_OFFSET(the_mgr.tls_fields_)) / sizeof(EpochManager_TLSEpoch);
  __CPROVER_assert(i < kMaxThreadNum, "[C04][C20][safety] slot index below the capacity");
  if(EP.role == EP_WORKER) return a->v; /* my own slot: I am its only writer */
  if(EP.quiescent) return EP_MAX;                          /* C16 hypothesis: every guard has been destroyed */
  if(EP.t_active && i == EP.t_slot)                        /* C04 hypothesis: the tracked guard is alive across the call */
  {
    if(EP.t_epoch == EP.v && EP.scan_slot == i && EP.scan_alive) EP.v_just = 1;
    return EP.t_epoch;
  }
  {
    /* RELY: any other slot is unpinned or pins an epoch that was current when its owner read it */
    uint64_t p = nondet_u64();
    /* ASSUME[rely]: a pinned epoch is MAX or a value of the global epoch (<= current) -- obligation [G.pin-is-current] of every worker function */
    __CPROVER_assume(p == EP_MAX || p <= g_global->v);
    /* the value is a "currently pinned epoch" only if this slot's heartbeat was tested, and found alive, just before */
    if(p != EP_MAX && p == EP.v && EP.scan_slot == i && EP.scan_alive) EP.v_just = 1;
    return p;
  }
}

static inline vec_size *arr_vec_size_256_at(arr_vec_size_256 *a, size_t i)
{
  __CPROVER_assert(i < 256, "[C17][C20][safety] array::at index in range");
  return &a->a[i];
}
static inline arr_vec_size_256 arr_vec_size_256_default(void)
{
  arr_vec_size_256 a = {{{0}}};
  return a;
}

static inline EpochManager_ProtectedNode *verif_new_EpochManager_ProtectedNode(EpochManager_ProtectedNode v)
{
  EpochManager_ProtectedNode *p = malloc(sizeof(EpochManager_ProtectedNode));
  /* ASSUME[library]: allocation succeeds */
  __CPROVER_assume(p != 0);
  *p = v;
  EP.nodes_allocated++;
  EP.new_node_upper = v.upper_epoch_;
  EP.new_node_next = v.next;
  EP.head_upper = v.upper_epoch_;   /* the code links every new node as the head (checked by post.list-node-for-a-new-range-only) */
  return p;
}
static inline void verif_delete_EpochManager_ProtectedNode(EpochManager_ProtectedNode *p)
{
  if(p == 0) return;
  EP.nodes_freed++;
  free(p);
}
static inline EpochManager_TLSEpoch *verif_new_array_EpochManager_TLSEpoch(size_t n)
{
  EpochManager_TLSEpoch *p = malloc(n * sizeof(EpochManager_TLSEpoch));
  /* ASSUME[library]: allocation succeeds; the elements are value-initialised (entered_ = MAX, empty heartbeat): slot
   * contents are only observed through the expired()/load stubs */
  __CPROVER_assume(p != 0);
  return p;
}

typedef struct { EpochGuard first; vec_size *second; } pair_EpochGuard_vecref;
static inline pair_EpochGuard_vecref pair_EpochGuard_vecref_make(EpochGuard g, vec_size *v)
{
  pair_EpochGuard_vecref p;
  p.first = g;
  p.second = v;
  return p;
}
#pragma CPROVER check pop
#endif
