/* EXECUTABLE versions of the stubs, used only by the extraction fidelity check (tools/fidelity.py): the extracted C
 * is compiled natively with these and its behaviour is compared with the real C++ library on random single-threaded
 * call sequences.  Single-threaded: atomics are plain memory operations. */
#ifndef NATIVE_STUBS_H
#define NATIVE_STUBS_H
#include <math.h>
#include <stdio.h>
#include <stdlib.h>
#include <string.h>

static inline uint64_t atomic_u64_load(atomic_u64 *a, int mo) { (void)mo; return a->v; }
static inline void atomic_u64_store(atomic_u64 *a, uint64_t v, int mo) { (void)mo; a->v = v; }
static inline uint64_t atomic_u64_exchange(atomic_u64 *a, uint64_t v, int mo) { (void)mo; uint64_t o = a->v; a->v = v; return o; }
static inline _Bool atomic_u64_compare_exchange_weak(atomic_u64 *a, uint64_t *e, uint64_t d, int ms, int mf)
{
  (void)ms; (void)mf;
  if(a->v == *e) { a->v = d; return 1; }
  *e = a->v;
  return 0;
}
static inline uint64_t atomic_u64_fetch_add(atomic_u64 *a, uint64_t v, int mo) { (void)mo; uint64_t o = a->v; a->v = o + v; return o; }
static inline uint64_t atomic_u64_fetch_sub(atomic_u64 *a, uint64_t v, int mo) { (void)mo; uint64_t o = a->v; a->v = o - v; return o; }
static inline uint64_t atomic_u64_fetch_xor(atomic_u64 *a, uint64_t v, int mo) { (void)mo; uint64_t o = a->v; a->v = o ^ v; return o; }
static inline void atomic_thread_fence_stub(int mo) { (void)mo; }

#ifdef VERIF_NATIVE_EPOCH
/* ---- epoch component: executable vector / heartbeat model for the fidelity check ---- */
typedef struct { size_t *ptr; } shared_ptr_size;
typedef struct { uint64_t gen; _Bool bound; } weak_ptr_size;
typedef int std_greater_size;
typedef struct { size_t size, cap; size_t *data; } vec_size;
typedef struct { vec_size *vec; size_t pos; } vec_size_iter;
typedef struct { vec_size a[256]; } arr_vec_size_256;
extern _Bool sim_gen_alive[];   /* heartbeat generations: alive while their (simulated) thread runs */
static inline shared_ptr_size shared_ptr_size_default(void) { shared_ptr_size p; p.ptr = 0; return p; }
static inline weak_ptr_size weak_ptr_size_default(void) { weak_ptr_size w; w.gen = 0; w.bound = 0; return w; }
static inline weak_ptr_size *weak_ptr_size_assign(weak_ptr_size *dst, weak_ptr_size src) { *dst = src; return dst; }
static inline void weak_ptr_size_dtor(weak_ptr_size *w) { (void)w; }
static inline _Bool weak_ptr_size_expired(const weak_ptr_size *w) { return !w->bound || !sim_gen_alive[w->gen]; }
static size_t sim_promoted_dummy;
static inline shared_ptr_size weak_ptr_size_lock(const weak_ptr_size *w) { shared_ptr_size p; p.ptr = weak_ptr_size_expired(w) ? 0 : &sim_promoted_dummy; return p; }
static inline _Bool shared_ptr_size_bool(const shared_ptr_size *p) { return p->ptr != 0; }
static inline void shared_ptr_size_dtor(shared_ptr_size *p) { p->ptr = 0; }
static inline void vec_size_reserve(vec_size *v, size_t n) { if(n > v->cap) { v->data = realloc(v->data, n * sizeof(size_t)); v->cap = n; } }
static inline void vec_size_emplace_back(vec_size *v, size_t x) { if(v->size == v->cap) vec_size_reserve(v, v->cap ? 2 * v->cap : 4); v->data[v->size++] = x; }
static inline size_t *vec_size_back(vec_size *v) { if(v->size == 0) { printf("EMPTY_BACK\n"); exit(3); } return &v->data[v->size - 1]; }
static inline size_t *vec_size_front(vec_size *v) { if(v->size == 0) { printf("EMPTY_FRONT\n"); exit(3); } return &v->data[0]; }
static inline size_t *vec_size_at(vec_size *v, size_t i) { if(i >= v->size) { printf("OUT_OF_RANGE\n"); exit(3); } return &v->data[i]; }
static inline size_t vec_size_size(const vec_size *v) { return v->size; }
static inline _Bool vec_size_empty(const vec_size *v) { return v->size == 0; }
static inline void vec_size_clear(vec_size *v) { v->size = 0; }
static inline vec_size_iter vec_size_begin(vec_size *v) { vec_size_iter i; i.vec = v; i.pos = 0; return i; }
static inline vec_size_iter vec_size_end(vec_size *v) { vec_size_iter i; i.vec = v; i.pos = v->size; return i; }
static inline void vec_size_sort_desc(vec_size_iter b, vec_size_iter e)
{
  for(size_t i = b.pos + 1; i < e.pos; i++)
  {
    size_t x = b.vec->data[i], j = i;
    while(j > b.pos && b.vec->data[j - 1] < x) { b.vec->data[j] = b.vec->data[j - 1]; j--; }
    b.vec->data[j] = x;
  }
}
static inline vec_size_iter vec_size_unique(vec_size_iter b, vec_size_iter e)
{
  vec_size_iter r = b;
  if(b.pos == e.pos) return r;
  size_t w = b.pos;
  for(size_t i = b.pos + 1; i < e.pos; i++)
    if(b.vec->data[i] != b.vec->data[w]) b.vec->data[++w] = b.vec->data[i];
  r.pos = w + 1;
  return r;
}
static inline void vec_size_erase(vec_size *v, vec_size_iter from, vec_size_iter to)
{
  size_t n = to.pos - from.pos;
  for(size_t i = to.pos; i < v->size; i++) v->data[i - n] = v->data[i];
  v->size -= n;
}
static inline size_t *vec_size_iter_deref(vec_size_iter *it) { if(it->pos >= it->vec->size) { printf("BAD_ITER\n"); exit(3); } return &it->vec->data[it->pos]; }
static inline vec_size_iter *vec_size_iter_inc(vec_size_iter *it) { it->pos = it->pos + 1; return it; }
static inline _Bool vec_size_iter_eq(const vec_size_iter *a, const vec_size_iter *b) { return a->vec == b->vec && a->pos == b->pos; }
static inline vec_size *arr_vec_size_256_at(arr_vec_size_256 *a, size_t i) { if(i >= 256) { printf("OUT_OF_RANGE\n"); exit(3); } return &a->a[i]; }
static inline arr_vec_size_256 arr_vec_size_256_default(void) { arr_vec_size_256 a; memset(&a, 0, sizeof a); return a; }
#else
/* ---- zipf ---- */
typedef struct { double *data; size_t size; size_t cap; _Bool wf; } vec_double;
typedef struct { double d[100]; } arr_double_100;
typedef struct { uint64_t state; } rand_engine;
typedef struct { double a, b; } uniform_real_dist;
static inline vec_double vec_double_default(void) { vec_double v; v.data = 0; v.size = 0; v.cap = 0; v.wf = 0; return v; }
static inline size_t vec_double_size(const vec_double *v) { return v->size; }
static inline double *vec_double_at(vec_double *v, size_t i) { if(i >= v->size) { printf("OUT_OF_RANGE\n"); exit(3); } return &v->data[i]; }
static inline _Bool vec_double_empty(const vec_double *v) { return v->size == 0; }
static inline double *vec_double_back(vec_double *v) { return vec_double_at(v, v->size - 1); }
static inline double *vec_double_front(vec_double *v) { return vec_double_at(v, 0); }
static inline void vec_double_reserve(vec_double *v, size_t n) { if(n > v->cap) { v->data = realloc(v->data, n * sizeof(double)); v->cap = n; } }
static inline void vec_double_emplace_back(vec_double *v, double x) { if(v->size == v->cap) vec_double_reserve(v, v->cap ? 2 * v->cap : 1); v->data[v->size++] = x; }
static inline vec_double *vec_double_assign1(vec_double *v, double x) { v->size = 0; vec_double_emplace_back(v, x); return v; }
static inline double *arr_double_100_at(arr_double_100 *a, size_t i) { if(i >= 100) { printf("OUT_OF_RANGE\n"); exit(3); } return &a->d[i]; }
static inline arr_double_100 arr_double_100_default(void) { arr_double_100 a; memset(&a, 0, sizeof a); return a; }
static inline arr_double_100 *arr_double_100_assign1(arr_double_100 *a, double x) { memset(a, 0, sizeof *a); a->d[0] = x; return a; }
static inline uniform_real_dist uniform_real_dist_init(double a, double b) { uniform_real_dist d; d.a = a; d.b = b; return d; }
/* libstdc++ generate_canonical<double, 53> for an engine with range [0, 2^64-1] returning g->state */
static inline double uniform_real_dist_call(uniform_real_dist *d, rand_engine *g)
{
  double sum = (double)g->state;
  double r = (double)18446744073709551616.0L;
  double ret = sum / r;
  if(ret >= 1.0) ret = nextafter(1.0, 0.0);
  return ret * (d->b - d->a) + d->a;
}
static inline double verif_pow(double b, double e) { return pow(b, e); }
static inline double verif_log(double x) { return log(x); }
static inline double verif_fabs(double x) { return fabs(x); }
#endif /* VERIF_NATIVE_EPOCH */
extern _Bool verif_thrown;
#endif
