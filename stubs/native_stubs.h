/* EXECUTABLE versions of the stubs, used only by the extraction fidelity check (tools/fidelity.py): the extracted C
 * is compiled natively with these and its behaviour is compared with the real C++ library on random single-threaded
 * call sequences.  Single-threaded: atomics are plain memory operations. */
#ifndef NATIVE_STUBS_H
#define NATIVE_STUBS_H
#include <math.h>
#include <stdio.h>
#include <stdlib.h>
#include <string.h>

static inline uint64_t atomic_u64_load(atomic_u64 *a, int mo) { (void)mo; return a->v; }
static inline void atomic_u64_store(atomic_u64 *a, uint64_t v, int mo) { (void)mo; a->v = v; }
static inline uint64_t atomic_u64_exchange(atomic_u64 *a, uint64_t v, int mo) { (void)mo; uint64_t o = a->v; a->v = v; return o; }
static inline _Bool atomic_u64_compare_exchange_weak(atomic_u64 *a, uint64_t *e, uint64_t d, int ms, int mf)
{
  (void)ms; (void)mf;
  if(a->v == *e) { a->v = d; return 1; }
  *e = a->v;
  return 0;
}
static inline uint64_t atomic_u64_fetch_add(atomic_u64 *a, uint64_t v, int mo) { (void)mo; uint64_t o = a->v; a->v = o + v; return o; }
static inline uint64_t atomic_u64_fetch_sub(atomic_u64 *a, uint64_t v, int mo) { (void)mo; uint64_t o = a->v; a->v = o - v; return o; }
static inline uint64_t atomic_u64_fetch_xor(atomic_u64 *a, uint64_t v, int mo) { (void)mo; uint64_t o = a->v; a->v = o ^ v; return o; }
static inline void atomic_thread_fence_stub(int mo) { (void)mo; }

/* ---- zipf ---- */
typedef struct { double *data; size_t size; size_t cap; _Bool wf; } vec_double;
typedef struct { double d[100]; } arr_double_100;
typedef struct { uint64_t state; } rand_engine;
typedef struct { double a, b; } uniform_real_dist;
static inline vec_double vec_double_default(void) { vec_double v; v.data = 0; v.size = 0; v.cap = 0; v.wf = 0; return v; }
static inline size_t vec_double_size(const vec_double *v) { return v->size; }
static inline double *vec_double_at(vec_double *v, size_t i) { if(i >= v->size) { printf("OUT_OF_RANGE\n"); exit(3); } return &v->data[i]; }
static inline void vec_double_reserve(vec_double *v, size_t n) { if(n > v->cap) { v->data = realloc(v->data, n * sizeof(double)); v->cap = n; } }
static inline void vec_double_emplace_back(vec_double *v, double x) { if(v->size == v->cap) vec_double_reserve(v, v->cap ? 2 * v->cap : 1); v->data[v->size++] = x; }
static inline vec_double *vec_double_assign1(vec_double *v, double x) { v->size = 0; vec_double_emplace_back(v, x); return v; }
static inline double *arr_double_100_at(arr_double_100 *a, size_t i) { if(i >= 100) { printf("OUT_OF_RANGE\n"); exit(3); } return &a->d[i]; }
static inline arr_double_100 arr_double_100_default(void) { arr_double_100 a; memset(&a, 0, sizeof a); return a; }
static inline arr_double_100 *arr_double_100_assign1(arr_double_100 *a, double x) { memset(a, 0, sizeof *a); a->d[0] = x; return a; }
static inline uniform_real_dist uniform_real_dist_init(double a, double b) { uniform_real_dist d; d.a = a; d.b = b; return d; }
/* libstdc++ generate_canonical<double, 53> for an engine with range [0, 2^64-1] returning g->state */
static inline double uniform_real_dist_call(uniform_real_dist *d, rand_engine *g)
{
  double sum = (double)g->state;
  double r = (double)18446744073709551616.0L;
  double ret = sum / r;
  if(ret >= 1.0) ret = nextafter(1.0, 0.0);
  return ret * (d->b - d->a) + d->a;
}
static inline double verif_pow(double b, double e) { return pow(b, e); }
static inline double verif_log(double x) { return log(x); }
extern _Bool verif_thrown;
#endif
