/* MCSLock stubs, part 2: protocol-step obligations (DESIGN.md 2.4 "MCSLock").
 *
 * The global queue invariant Q of the MCS protocol (the flags a node inherited plus later decrements summarise all
 * earlier groups) is NOT proved -- it is listed as an assumption.  What is checked, for an ARBITRARY value of every
 * word another thread may have written (the accessed word is havocked before each atomic operation, except where a
 * local stability fact is named), are the single-step facts Q is built from and whose failure produces lost
 * hand-offs, leaked or reused nodes and unordered sections:
 *   G.enqueue   the exchange/CAS that announces a request installs my own, fresh node with exactly my mode flag
 *   G.node      after my node became reachable I modify it only by read-modify-write (a plain store can erase a link)
 *   G.link      the link to the predecessor is published exactly once, after my node's flag field is final
 *   G.handoff   every release/conversion path performs exactly one successful flag update (lock word or successor node)
 *   G.step      each such update changes exactly my mode's field
 *   life cycle  a taken node is published or returned; the group's node is recycled iff my update left no flag; no access after recycling
 *   C08         hand-off steps are release operations, granting observations are acquire operations
 * Node addresses: pointer <-> integer bit_casts go through a table of three node objects with symbolic, distinct,
 * 8-aligned 47-bit addresses (slot 0 = the node this call owns or was given; slots 1,2 are bound on demand). */
#ifndef RG_MCS_POST_H
#define RG_MCS_POST_H

#pragma CPROVER check push
#pragma CPROVER check disable "unsigned-overflow"
#pragma CPROVER check disable "conversion"
#pragma CPROVER check disable "pointer-overflow"

#define M_PTR(w) ((w) & ((1UL << 47) - 1UL))
#define M_FLAGS(w) ((w) & ~((1UL << 47) - 1UL))
#define M_S(w) (((w) >> 47) & ((1UL << 15) - 1UL))
#define M_SIX(w) (((w) >> 62) & 1UL)
#define M_X(w) ((w) >> 63)
#define M_SBIT (1UL << 47)
#define M_SIXBIT (1UL << 62)
#define M_XBIT (1UL << 63)
#define M_XMASK (M_SIXBIT | M_XBIT)

enum { MCS_LOCKS = 1, MCS_LOCKSIX, MCS_LOCKX, MCS_UNLOCKS, MCS_UNLOCKSIX, MCS_UNLOCKX, MCS_UPGRADE, MCS_DOWNGRADE };
#define MCS_NN 3
struct mcs_state {
  int fn;
  uint64_t addr[MCS_NN];
  _Bool bound[MCS_NN];
  /* my node (slot 0) */
  _Bool have_node, published, flags_installed, linked;
  uint64_t enq_old;
  /* node cache of this thread */
  _Bool cache_nonempty;
  _Bool recycled;
  struct MCSLock *recycled_ptr;
  uint64_t cache_frees;
  /* release / conversion steps */
  uint64_t l_handoffs, n_handoffs, convs, joins;
  _Bool nulled;
  uint64_t join_old, succ_after;
  /* recorded loads */
  uint64_t last_l, last_mine, last_foreign;
  uint64_t last_foreign_addr;   /* address of the foreign node loaded last */
  uint64_t join_node_last;      /* last value loaded from the node of the group this shared request joined */
  _Bool have_join_node;
  _Bool have_l, have_mine, have_foreign, acq_l, acq_mine, acq_foreign;
  _Bool mine_szero_seen, mine_szero_acq; /* first load of my node that showed no shared predecessor left, and whether it acquired */
  uint64_t n_atomic;
};
extern struct mcs_state MCS;
extern MCSLock the_lock;
extern MCSLock mcs_nodes[MCS_NN];
extern unique_ptr_MCSLock MCSLock_tls_node_;

/* ---- node address model --------------------------------------------------------------------------- */
static inline uint64_t verif_ptr_to_u64(MCSLock *p)
{
  if(p == &mcs_nodes[0]) return MCS.addr[0];
  if(p == &mcs_nodes[1]) return MCS.addr[1];
  if(p == &mcs_nodes[2]) return MCS.addr[2];
  __CPROVER_assert(0, "[model] address of a node outside the address table");
  return 0;
}
/* pure lookup (no binding) */
static inline MCSLock *mcs_lookup(uint64_t x)
{
  if(x == 0) return (MCSLock *)0;
  if(MCS.addr[0] == x) return &mcs_nodes[0];
  if(MCS.bound[1] && MCS.addr[1] == x) return &mcs_nodes[1];
  if(MCS.bound[2] && MCS.addr[2] == x) return &mcs_nodes[2];
  return (MCSLock *)0;
}
static inline MCSLock *verif_u64_to_MCSLock(uint64_t x)
{
  if(x == 0) return (MCSLock *)0;
  MCSLock *p = mcs_lookup(x);
  if(p != 0) return p;
  if(!MCS.bound[1]) { MCS.bound[1] = 1; MCS.addr[1] = x; return &mcs_nodes[1]; }
  if(!MCS.bound[2]) { MCS.bound[2] = 1; MCS.addr[2] = x; return &mcs_nodes[2]; }
  __CPROVER_assert(0, "[model] more than two foreign nodes dereferenced in one call");
  return &mcs_nodes[1];
}
static inline int mcs_slot_of(const atomic_u64 *a)
{
  if(a == &mcs_nodes[0].lock_) return 0;
  if(a == &mcs_nodes[1].lock_) return 1;
  if(a == &mcs_nodes[2].lock_) return 2;
  return -1;
}

/* ---- node cache (thread_local unique_ptr<MCSLock>): ASSUMED library contract ------------------------------ */
static inline _Bool unique_ptr_MCSLock_bool(const unique_ptr_MCSLock *u) { return u->p != 0; }
static inline MCSLock *unique_ptr_MCSLock_release(unique_ptr_MCSLock *u)
{
  MCSLock *r = u->p;
  u->p = 0;
  MCS.cache_nonempty = 0;
  __CPROVER_assert(!MCS.have_node, "[C12][life.one-node-per-request] a request takes at most one node");
  MCS.have_node = 1;
  return r;
}
static inline void unique_ptr_MCSLock_reset(unique_ptr_MCSLock *u, MCSLock *q)
{
  if(u->p != 0) MCS.cache_frees++; /* the previously cached node is deleted */
  __CPROVER_assert(!MCS.recycled, "[C12][life.recycle-once] a call hands at most one node back to the cache");
  u->p = q;
  MCS.cache_nonempty = 1;
  MCS.recycled = 1;
  MCS.recycled_ptr = q;
}
static inline MCSLock *verif_new_MCSLock(MCSLock v)
{
  __CPROVER_assert(!MCS.have_node, "[C12][life.one-node-per-request] a request takes at most one node");
  MCS.have_node = 1;
  mcs_nodes[0] = v;
  return &mcs_nodes[0];
}

/* ---- RELY: what other threads may have done to the accessed word ---------------------------------------------- */
/* "my grant is represented in exactly one place": in the lock word while my group's node is the tail, otherwise in
 * the flag field of the successor node (local part of the queue invariant Q; ASSUMED, listed) */
static inline _Bool mcs_my_flag_present(uint64_t w)
{
  if(MCS.fn == MCS_UNLOCKS) return M_S(w) >= 1 && !M_X(w);
  if(MCS.fn == MCS_UNLOCKSIX || MCS.fn == MCS_UPGRADE) return M_SIX(w) && !M_X(w);
  if(MCS.fn == MCS_UNLOCKX || MCS.fn == MCS_DOWNGRADE) return M_X(w) && !M_SIX(w);
  return 1;
}

static inline void mcs_env(atomic_u64 *a, int slot)
{
  MCS.n_atomic++;
  _Bool mine_fresh = (MCS.fn == MCS_LOCKX || MCS.fn == MCS_LOCKSIX || MCS.fn == MCS_LOCKS);
  if(slot == 0)
  {
    if(mine_fresh && !MCS.published) return; /* private: nobody else knows the node */
    uint64_t w = nondet_u64();
    /* ASSUME[rely, other threads' G.node]: a next pointer, once written, is not changed by anybody; a node never links to itself */
    __CPROVER_assume((M_PTR(a->v) == 0 || M_PTR(w) == M_PTR(a->v)) && M_PTR(w) != MCS.addr[0]);
    /* ASSUME[rely]: predecessors only clear their flags in my node (the shared counter never grows, X/SIX are never set again) */
    __CPROVER_assume(M_S(w) <= M_S(a->v) && (M_FLAGS(w) & M_XMASK & ~M_FLAGS(a->v)) == 0);
    if(!mine_fresh)
    {
      /* ASSUME[queue invariant Q, local part]: I hold a grant, so my group's node shows no conflicting predecessor flag:
       * no X/SIX for a shared or SIX holder, nothing at all for an exclusive holder */
      __CPROVER_assume((w & M_XMASK) == 0);
      __CPROVER_assume(!(MCS.fn == MCS_UNLOCKX || MCS.fn == MCS_DOWNGRADE) || M_FLAGS(w) == 0);
    }
    if(mine_fresh && MCS.published && !MCS.linked)
    {
      /* ASSUME[rely]: before I publish my link only successors touch my node, and they only write the pointer field */
      __CPROVER_assume(M_FLAGS(w) == M_FLAGS(a->v));
    }
    a->v = w;
    return;
  }
  {
    uint64_t w = nondet_u64(); /* the lock word and foreign nodes: arbitrary ... */
    /* ASSUME[rely]: ... except that nobody can know the address of a node I have not published */
    __CPROVER_assume(!(mine_fresh && !MCS.published) || M_PTR(w) != MCS.addr[0]);
    if(a == &the_lock.lock_)
    {
      /* ASSUME[queue invariant Q, local part]: a non-empty lock word names its tail node; while my group's node is the
       * tail my grant is recorded in the lock word */
      __CPROVER_assume(w == 0 || M_PTR(w) != 0);
      __CPROVER_assume(mine_fresh || M_PTR(w) != MCS.addr[0] || mcs_my_flag_present(w));
    }
    else if(!mine_fresh)
    {
      /* ASSUME[queue invariant Q, local part]: once my group has a successor my grant is recorded in the successor's flag field */
      __CPROVER_assume(mcs_my_flag_present(w));
    }
    if(a != &the_lock.lock_ && slot >= 0)
    {
      /* ASSUME[queue invariant Q, local part]: a node never links to itself, and a link once written is never changed */
      __CPROVER_assume(M_PTR(w) != MCS.addr[slot] && (M_PTR(a->v) == 0 || M_PTR(w) == M_PTR(a->v)));
    }
    a->v = w;
  }
}

static inline void mcs_check_not_recycled(int slot)
{
  __CPROVER_assert(!(MCS.recycled && slot >= 0 && MCS.recycled_ptr == &mcs_nodes[slot]), "[C12][life.no-access-after-recycle] a node is not accessed after it was handed back for reuse");
}

/* ---- the atomic operations ------------------------------------------------------------------------------------ */
static inline uint64_t atomic_u64_load(atomic_u64 *a, int mo)
{
  int slot = mcs_slot_of(a);
  mcs_check_not_recycled(slot);
  mcs_env(a, slot);
  uint64_t v = a->v;
  if(a == &the_lock.lock_) { MCS.last_l = v; MCS.have_l = 1; MCS.acq_l = VERIF_IS_ACQUIRE(mo); }
  else if(slot == 0)
  {
    MCS.last_mine = v; MCS.have_mine = 1; MCS.acq_mine = VERIF_IS_ACQUIRE(mo);
    if(M_S(v) == 0 && !MCS.mine_szero_seen) { MCS.mine_szero_seen = 1; MCS.mine_szero_acq = VERIF_IS_ACQUIRE(mo); }
  }
  else
  {
    MCS.last_foreign = v; MCS.have_foreign = 1; MCS.acq_foreign = VERIF_IS_ACQUIRE(mo);
    MCS.last_foreign_addr = slot >= 0 ? MCS.addr[slot] : 0;
    if(MCS.fn == MCS_LOCKS && MCS.joins > 0 && slot >= 0 && MCS.addr[slot] == M_PTR(MCS.join_old)) { MCS.join_node_last = v; MCS.have_join_node = 1; }
  }
  return v;
}

static inline void atomic_u64_store(atomic_u64 *a, uint64_t v, int mo)
{
  int slot = mcs_slot_of(a);
  mcs_check_not_recycled(slot);
  mcs_env(a, slot);
  __CPROVER_assert(slot == 0, "[C01][C02][G.step] plain stores go to my own node only");
  __CPROVER_assert(!MCS.published && MCS.fn <= MCS_LOCKX, "[C02][C12][G.node] after my node became reachable through the lock word (during a request after its enqueue step, and during every release or conversion) it is modified only by read-modify-write operations (a plain store can erase a successor's link)");
  a->v = v;
  if(MCS.published) MCS.flags_installed = (M_FLAGS(v) == M_FLAGS(MCS.enq_old));
}

static inline uint64_t atomic_u64_exchange(atomic_u64 *a, uint64_t v, int mo)
{
  int slot = mcs_slot_of(a);
  mcs_env(a, slot);
  uint64_t o = a->v;
  __CPROVER_assert(a == &the_lock.lock_ && (MCS.fn == MCS_LOCKX || MCS.fn == MCS_LOCKSIX), "[C01][C02][G.step] exchange is only the enqueue step of LockX/LockSIX on the lock word");
  __CPROVER_assert(MCS.have_node && !MCS.published && M_PTR(v) == MCS.addr[0], "[C02][C12][G.enqueue] the enqueue step installs this request's own fresh node as the new tail");
  __CPROVER_assert(M_FLAGS(v) == (MCS.fn == MCS_LOCKX ? M_XBIT : M_SIXBIT), "[C01][G.enqueue] the enqueue step announces exactly the requested mode");
  __CPROVER_assert(VERIF_IS_ACQUIRE(mo), "[C08][acquire] the enqueue exchange acquires (it may grant the lock at once)");
  a->v = v;
  MCS.published = 1;
  MCS.enq_old = o;
  return o;
}

static inline _Bool atomic_u64_compare_exchange_weak(atomic_u64 *a, uint64_t *expected, uint64_t desired, int mo_s, int mo_f)
{
  int slot = mcs_slot_of(a);
  mcs_env(a, slot);
  uint64_t o = a->v;
  __CPROVER_assert(a == &the_lock.lock_, "[C01][C02][G.step] compare-exchange is used on the lock word only");
  if(!(o == *expected && nondet_bool())) { *expected = o; MCS.last_l = o; MCS.have_l = 1; MCS.acq_l = VERIF_IS_ACQUIRE(mo_f); return 0; }
  a->v = desired;
  if(MCS.fn == MCS_LOCKS)
  {
    if(o != 0)
    {
      __CPROVER_assert(desired == o + M_SBIT, "[C01][G.step] a shared request joins the tail group by adding exactly one to its shared counter");
      MCS.joins++;
      MCS.join_old = o;
    }
    else
    {
      __CPROVER_assert(MCS.have_node && !MCS.published && desired == (MCS.addr[0] | M_SBIT), "[C01][C02][C12][G.enqueue] a shared request on a free lock installs its own fresh node with one shared holder");
      __CPROVER_assert(mcs_nodes[0].lock_.v == 0, "[C02][C12][G.enqueue] the node a shared request publishes carries no stale successor link or flag (a cached node was used before)");
      MCS.published = 1;
    }
    __CPROVER_assert(VERIF_IS_ACQUIRE(mo_s), "[C08][acquire] the joining/enqueueing compare-exchange acquires");
    return 1;
  }
  /* release and conversion steps on the lock word: only while my group's node is still the tail */
  __CPROVER_assert(M_PTR(o) == MCS.addr[0], "[C02][G.handoff] the lock word is updated by a release only while my node is the tail");
  if(MCS.fn == MCS_UNLOCKS)
  {
    __CPROVER_assert(M_S(o) >= 1 && ((desired == o - M_SBIT && (M_FLAGS(desired) & ~M_XBIT) != 0) || (desired == 0 && M_FLAGS(o) == M_SBIT)), "[C01][C02][C12][G.step] UnlockS on the tail removes exactly one shared holder, and frees the word (which hands the group's node back) only if it was the last flag");
    MCS.nulled = (desired == 0);
    MCS.l_handoffs++;
    __CPROVER_assert(VERIF_IS_RELEASE(mo_s), "[C08][publish] a release step on the lock word is a release operation");
  }
  else if(MCS.fn == MCS_UNLOCKSIX)
  {
    __CPROVER_assert(M_SIX(o) && ((desired == (o ^ M_SIXBIT) && M_S(o) != 0) || (desired == 0 && M_FLAGS(o) == M_SIXBIT)), "[C01][C02][C12][G.step] UnlockSIX on the tail clears exactly the SIX flag, and frees the word only if it was the last flag");
    MCS.nulled = (desired == 0);
    MCS.l_handoffs++;
    __CPROVER_assert(VERIF_IS_RELEASE(mo_s), "[C08][publish] a release step on the lock word is a release operation");
  }
  else if(MCS.fn == MCS_UNLOCKX)
  {
    __CPROVER_assert(M_X(o) && ((desired == (o ^ M_XBIT) && M_S(o) != 0) || (desired == 0 && M_FLAGS(o) == M_XBIT)), "[C01][C02][C12][G.step] UnlockX on the tail clears exactly the X flag, and frees the word only if it was the last flag");
    MCS.nulled = (desired == 0);
    MCS.l_handoffs++;
    __CPROVER_assert(VERIF_IS_RELEASE(mo_s), "[C08][publish] a release step on the lock word is a release operation");
  }
  else if(MCS.fn == MCS_UPGRADE)
  {
    __CPROVER_assert(M_SIX(o) && !M_X(o) && desired == (o ^ M_XMASK), "[C10][C01][G.step] UpgradeToX flips SIX into X in one step");
    MCS.convs++;
  }
  else if(MCS.fn == MCS_DOWNGRADE)
  {
    __CPROVER_assert(M_X(o) && !M_SIX(o) && desired == (o ^ M_XMASK), "[C10][C01][G.step] DowngradeToSIX flips X into SIX in one step");
    MCS.convs++;
    __CPROVER_assert(VERIF_IS_RELEASE(mo_s), "[C08][publish] the downgrade publishes the exclusive section (release)");
  }
  else
    __CPROVER_assert(0, "[C01][G.step] unexpected compare-exchange on the lock word");
  return 1;
}

/* read-modify-write on a node word */
static inline uint64_t mcs_node_rmw(atomic_u64 *a, uint64_t operand, int mo, int op /*0 add, 1 sub, 2 xor*/)
{
  int slot = mcs_slot_of(a);
  mcs_check_not_recycled(slot);
  mcs_env(a, slot);
  uint64_t o = a->v;
  uint64_t n = op == 0 ? o + operand : (op == 1 ? o - operand : (o ^ operand));
  a->v = n;
  __CPROVER_assert(slot >= 0, "[C01][C02][G.step] fetch-and-modify is used on queue nodes only");
  if(slot == 0)
  {
    /* my own node: legal only as the flag installation after the enqueue step (keeps a successor's link) */
    __CPROVER_assert((MCS.fn == MCS_LOCKX || MCS.fn == MCS_LOCKSIX) && MCS.published && !MCS.linked && M_PTR(n) == M_PTR(o), "[C02][G.node] a read-modify-write on my own node only installs the inherited flags and keeps the pointer field");
    MCS.flags_installed = (M_FLAGS(n) == M_FLAGS(MCS.enq_old));
    return o;
  }
  if(MCS.fn == MCS_LOCKX || MCS.fn == MCS_LOCKSIX)
  {
    __CPROVER_assert(op == 0 && operand == MCS.addr[0] && mcs_lookup(M_PTR(MCS.enq_old)) != 0 && a == &mcs_lookup(M_PTR(MCS.enq_old))->lock_, "[C02][G.link] the only write to a foreign node is the link of my node into the predecessor found by the enqueue step");
    __CPROVER_assert(MCS.published && MCS.flags_installed && !MCS.linked, "[C02][G.link] the link is published exactly once, after my node's flag field holds the predecessor group's flags");
    __CPROVER_assert(VERIF_IS_RELEASE(mo), "[C02][C08][publish] the link is published with release order (my node's contents are visible to the predecessor)");
    MCS.linked = 1;
    return o;
  }
  /* hand-off / conversion on the successor node */
  __CPROVER_assert(MCS.have_mine && M_PTR(MCS.last_mine) != 0 && mcs_lookup(M_PTR(MCS.last_mine)) != 0 && a == &mcs_lookup(M_PTR(MCS.last_mine))->lock_, "[C02][G.handoff] a release updates the successor node whose address was read from my own node");
  if(MCS.fn == MCS_UNLOCKS)
    __CPROVER_assert(op == 1 && operand == M_SBIT, "[C01][C02][G.step] UnlockS removes exactly one shared holder from the successor node");
  else if(MCS.fn == MCS_UNLOCKSIX)
    __CPROVER_assert(op == 2 && operand == M_SIXBIT, "[C01][C02][G.step] UnlockSIX clears exactly the SIX flag in the successor node");
  else if(MCS.fn == MCS_UNLOCKX)
    __CPROVER_assert(op == 2 && operand == M_XBIT, "[C01][C02][G.step] UnlockX clears exactly the X flag in the successor node");
  else if(MCS.fn == MCS_UPGRADE || MCS.fn == MCS_DOWNGRADE)
    __CPROVER_assert(op == 2 && operand == M_XMASK, "[C10][C01][G.step] a conversion flips SIX and X together in the successor node");
  else
    __CPROVER_assert(0, "[C01][G.step] unexpected read-modify-write on a foreign node");
  if(MCS.fn == MCS_UPGRADE || MCS.fn == MCS_DOWNGRADE) MCS.convs++; else MCS.n_handoffs++;
  MCS.succ_after = n;
  if(MCS.fn != MCS_UPGRADE)
    __CPROVER_assert(VERIF_IS_RELEASE(mo), "[C08][publish] a release/downgrade step on the successor node is a release operation");
  return o;
}
static inline uint64_t atomic_u64_fetch_add(atomic_u64 *a, uint64_t v, int mo) { return mcs_node_rmw(a, v, mo, 0); }
static inline uint64_t atomic_u64_fetch_sub(atomic_u64 *a, uint64_t v, int mo) { return mcs_node_rmw(a, v, mo, 1); }
static inline uint64_t atomic_u64_fetch_xor(atomic_u64 *a, uint64_t v, int mo) { return mcs_node_rmw(a, v, mo, 2); }
static inline void atomic_thread_fence_stub(int mo) { (void)mo; }

/* harness helper: arbitrary ghost state, symbolic distinct node addresses */
static inline void mcs_setup(int fn)
{
  struct mcs_state s;
  MCS = s;
  MCS.fn = fn;
  MCS.bound[0] = 1; MCS.bound[1] = 0; MCS.bound[2] = 0;
  /* ASSUME[documented, MCSLock]: node addresses fit in 47 bits and are 8-byte aligned (the repository's own assumption) */
  __CPROVER_assume(MCS.addr[0] != 0 && (MCS.addr[0] & 7UL) == 0 && MCS.addr[0] < (1UL << 47));
  MCS.have_node = 0; MCS.published = 0; MCS.flags_installed = 0; MCS.linked = 0;
  MCS.recycled = 0; MCS.recycled_ptr = 0; MCS.cache_frees = 0;
  MCS.l_handoffs = 0; MCS.n_handoffs = 0; MCS.convs = 0; MCS.joins = 0; MCS.nulled = 0;
  MCS.have_l = 0; MCS.have_mine = 0; MCS.have_foreign = 0; MCS.have_join_node = 0; MCS.mine_szero_seen = 0; MCS.mine_szero_acq = 0;
  MCS.n_atomic = 0;
  the_lock.lock_.v = nondet_u64();
  mcs_nodes[0].lock_.v = nondet_u64();
  mcs_nodes[1].lock_.v = nondet_u64();
  mcs_nodes[2].lock_.v = nondet_u64();
  MCSLock_tls_node_.p = nondet_bool() ? (MCSLock *)0 : &mcs_nodes[0];
  MCS.cache_nonempty = MCSLock_tls_node_.p != 0;
}
/* on-demand bound addresses must be distinct from each other and from slot 0: enforced where they are bound by
 * comparing with the already bound ones (verif_u64_to_MCSLock looks up before it binds) */

#pragma CPROVER check pop
#endif
