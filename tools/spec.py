"""Parser for /verif/contracts/*.spec and splicer of contracts into extracted C.

Directives (a line starting with '@'):
  @component NAME
  @source PATH                 translation unit under /repo
  @define MACRO                passed to goto-cc
  @symbolic NAME               build-time constant kept symbolic by the extractor
  @prelude / @end              C text placed after the prototypes (harness objects, helper predicates)
  @function NAME / @end        contract clauses spliced between declarator and body
  @loop NAME ORDINAL / @end    loop contract clauses spliced between loop head and body
  @group NAME / @end           one obligation group: key: value lines, optional 'harness:' C block
  @foreach VAR in A B C / @endforeach   textual expansion, ${VAR} substituted (may nest)

Clause lines may start with a tag comment /*[C07][post.x]*/; the tags are mapped to
the CBMC obligations generated from that line.
"""
import os
import re


class SpecError(Exception):
    pass


def expand_foreach(lines):
    out = []
    i = 0
    while i < len(lines):
        ln = lines[i]
        m = re.match(r'^@foreach\s+(\w+)\s+in\s+(.*)$', ln.strip())
        if m:
            depth, j = 1, i + 1
            while j < len(lines):
                s = lines[j].strip()
                if s.startswith('@foreach'):
                    depth += 1
                elif s == '@endforeach':
                    depth -= 1
                    if depth == 0:
                        break
                j += 1
            if j >= len(lines):
                raise SpecError('unterminated @foreach at line %d' % (i + 1))
            body = lines[i + 1:j]
            var, vals = m.group(1), m.group(2).split()
            for v in vals:
                # a value "A:B:C" binds ${VAR} to A, ${VAR.1} to B, ${VAR.2} to C
                parts = v.split(':')
                sub = []
                for b in body:
                    t = b.replace('${%s}' % var, parts[0])
                    for k, p in enumerate(parts[1:], 1):
                        t = t.replace('${%s.%d}' % (var, k), p)
                    sub.append(t)
                out.extend(expand_foreach(sub))
            i = j + 1
        else:
            out.append(ln)
            i += 1
    return out


class Group:
    def __init__(self, name):
        self.name = name
        self.properties = []
        self.enforce = None
        self.replace = []
        self.backend = 'sat'
        self.harness = None
        self.expect = []
        self.unwind = None
        self.level = 'proof'
        self.flags = []
        self.inline_calls = []
        self.replay = None
        self.note = ''
        self.timeout = None
        self.no_loop_contracts = False
        self.object_bits = None
        self.tier = 'quick'
        self.native = None


class Component:
    def __init__(self, name):
        self.name = name
        self.source = None
        self.extra_sources = []
        self.defines = []
        self.symbolic = []
        self.prelude = []
        self.functions = {}   # cname -> list of clause lines
        self.loops = {}       # (cname, ordinal) -> list of clause lines
        self.groups = []
        self.driver_tu = None


def expand_includes(path, raw):
    out = []
    for ln in raw:
        m = re.match(r'^@include\s+(\S+)\s*(.*)$', ln.strip())
        if not m:
            out.append(ln)
            continue
        inc = open(os.path.join(os.path.dirname(path), m.group(1))).read()
        for kv in m.group(2).split():
            k, v = kv.split('=', 1)
            inc = inc.replace('${%s}' % k, v.replace('|', ' '))
        out.extend(inc.split('\n'))
    return out


def parse_spec(path):
    raw = open(path).read().split('\n')
    raw = expand_includes(path, raw)
    lines = expand_foreach(raw)
    comp = None
    i = 0
    n = len(lines)

    def block(i):
        body = []
        while i < n and lines[i].strip() != '@end':
            if lines[i].startswith('@') and not lines[i].startswith('@@'):
                raise SpecError('%s: directive inside block near "%s"' % (path, lines[i]))
            body.append(lines[i])
            i += 1
        if i >= n:
            raise SpecError('%s: missing @end' % path)
        return body, i + 1

    while i < n:
        ln = lines[i].rstrip()
        s = ln.strip()
        if not s or s.startswith('#'):
            i += 1
            continue
        if not s.startswith('@'):
            raise SpecError('%s:%d: text outside a block: %s' % (path, i + 1, s))
        parts = s.split()
        d = parts[0]
        if d == '@component':
            comp = Component(parts[1])
            i += 1
        elif d == '@source':
            comp.source = parts[1]
            i += 1
        elif d == '@driver_tu':
            comp.driver_tu = parts[1]
            i += 1
        elif d == '@define':
            comp.defines.append(parts[1])
            i += 1
        elif d == '@step_properties':
            # properties whose obligations sit in the atomic-step stubs (G.legal, G.version, G.nogap ...): every group of the
            # component that runs code is registered for them, because any function may perform such a step
            comp.step_properties = getattr(comp, 'step_properties', []) + parts[1:]
            i += 1
        elif d in ('@thread_local', '@noncopyable'):
            # static facts of the C++ text that the C extraction cannot express: `@thread_local CNAME Cxx...` (the object
            # must have thread storage duration), `@noncopyable CLASS Cxx...` (copy constructor and copy assignment deleted)
            comp.static_reqs = getattr(comp, 'static_reqs', []) + [(d[1:], parts[1], parts[2:])]
            i += 1
        elif d == '@extract_define':
            comp.extract_defines = getattr(comp, 'extract_defines', []) + [parts[1]]
            i += 1
        elif d == '@nocheck':
            comp.nochecks = getattr(comp, 'nochecks', []) + [parts[1]]
            i += 1
        elif d == '@clone':
            comp.clones = getattr(comp, 'clones', []) + [(parts[1], parts[2], len(parts) > 3 and parts[3] == 'keep_loops')]
            i += 1
        elif d == '@symbolic':
            comp.symbolic.append(parts[1])
            i += 1
        elif d == '@prelude':
            body, i = block(i + 1)
            comp.prelude.extend(body)
        elif d == '@function':
            body, i = block(i + 1)
            if parts[1] in comp.functions:
                raise SpecError('%s: duplicate contract for %s' % (path, parts[1]))
            comp.functions[parts[1]] = [b for b in body if b.strip()]
        elif d == '@loop':
            body, i = block(i + 1)
            comp.loops[(parts[1], int(parts[2]))] = [b for b in body if b.strip()]
        elif d == '@group':
            g = Group(parts[1])
            body, i = block(i + 1)
            j = 0
            while j < len(body):
                b = body[j]
                if not b.strip():
                    j += 1
                    continue
                m = re.match(r'^\s*(\w+):\s*(.*)$', b)
                if not m:
                    raise SpecError('%s: bad group line "%s" in %s' % (path, b, g.name))
                k, v = m.group(1), m.group(2).strip()
                if k == 'harness':
                    g.harness = body[j + 1:]
                    break
                if k == 'properties':
                    g.properties = v.split()
                elif k == 'enforce':
                    g.enforce = v
                elif k == 'replace':
                    g.replace = v.split()
                elif k == 'backend':
                    g.backend = v
                elif k == 'expect':
                    g.expect = v.split()
                elif k == 'unwind':
                    g.unwind = int(v)
                    g.level = 'bounded'
                elif k == 'flags':
                    g.flags = v.split()
                elif k == 'replay':
                    g.replay = v
                elif k == 'note':
                    g.note = v
                elif k == 'timeout':
                    g.timeout = int(v)
                elif k == 'object_bits':
                    g.object_bits = int(v)
                elif k == 'native':
                    g.native = v
                    g.level = 'bounded'
                elif k == 'tier':
                    g.tier = v
                elif k == 'loop_contracts':
                    g.no_loop_contracts = (v == 'off')
                else:
                    raise SpecError('%s: unknown group key %s' % (path, k))
                j += 1
            comp.groups.append(g)
        else:
            raise SpecError('%s:%d: unknown directive %s' % (path, i + 1, d))
    if getattr(comp, 'static_reqs', None):
        g = Group(comp.name + '.static_facts')
        g.native = 'static_facts'
        g.note = 'facts of the C++ text that the C extraction cannot express (storage duration, deleted copy operations), read from the clang AST'
        for _k, _n, props in comp.static_reqs:
            for x in props:
                if x not in g.properties:
                    g.properties.append(x)
        comp.groups.append(g)
    for g in comp.groups:
        if not g.native and (g.enforce or g.harness):
            for x in getattr(comp, 'step_properties', []):
                if x not in g.properties:
                    g.properties.append(x)
    # a group is registered for every property that a clause of its enforced function is tagged with
    for g in comp.groups:
        if g.enforce and g.enforce in comp.functions:
            for c in comp.functions[g.enforce]:
                t = re.match(r'^\s*/\*((?:\[[^\]]+\])+)\*/', c)
                if t:
                    for x in re.findall(r'\[(C\d\d)\]', t.group(1)):
                        if x not in g.properties:
                            g.properties.append(x)
    return comp


TAG_RE = re.compile(r'^\s*/\*((?:\[[^\]]+\])+)\*/')


def signatures_of(ctext):
    """function -> [(ctype, parameter name), ...] of the extracted text"""
    sigs = {}
    for m in re.finditer(r'^/\*@FUNC (\w+)\*/\n[^\n]*?\b\1\((.*)\)\s*$', ctext, re.M):
        params = []
        inner = m.group(2).strip()
        if inner and inner != 'void':
            for part in inner.split(','):
                pm = re.match(r'^\s*(.*?)(\w+)\s*$', part)
                if pm:
                    params.append((re.sub(r'\s+', ' ', pm.group(1)).strip(), pm.group(2)))
        sigs[m.group(1)] = params
    return sigs


def locals_of(ctext):
    """function -> [(ctype, local name), ...] in declaration order (block-scoped declarations of the extracted C body)"""
    out = {}
    for m in re.finditer(r'^/\*@FUNC (\w+)\*/\n[^\n]*\n(.*?)^\}\n', ctext, re.M | re.S):
        decls = []
        for l in m.group(2).split('\n'):
            if l.startswith('__CPROVER') or re.match(r'^\s*(/\*|(return|goto|if|while|for|do|else)\b)', l):
                continue
            dm = re.match(r'^\s+((?:const\s+)?[A-Za-z_]\w*(?:\s+[A-Za-z_]\w*)*?\s*\**)\s*\b([A-Za-z_]\w*)\s*(?:=[^=]|;)', l)
            if dm and dm.group(1).strip() not in ('return', 'goto', 'else'):
                decls.append((re.sub(r'\s+', ' ', dm.group(1)).strip(), dm.group(2)))
        out[m.group(1)] = decls
    return out


def parameter_renames(ctext, comp):
    """The contracts name parameters as they were spelled when the contracts were written (contracts/signatures.json).
    A function whose parameters were merely renamed (same number, same C types, in order) keeps its contract: the old
    names are mapped to the current ones.  Anything else is left alone (and ends as undecided if the names are gone)."""
    import json
    base_path = os.path.join(os.path.dirname(comp.path), 'signatures.json')
    if not os.path.exists(base_path):
        return {}
    base = json.load(open(base_path)).get(comp.name, {})
    cur = signatures_of(ctext)
    ren = {}
    for f, old in base.items():
        new = cur.get(f)
        if new is None or len(new) != len(old):
            continue
        if [t for t, _ in old] != [t for t, _ in new]:
            continue
        mp = {o: n for (_, o), (_, n) in zip(old, new) if o != n}
        if mp:
            ren[f] = mp
    # locals: a pure rename keeps number, types and order of the declarations; old and new names must be disjoint
    # (a permutation of existing names is not a rename and is left alone)
    base_l = json.load(open(base_path)).get(comp.name + '#locals', {})
    cur_l = locals_of(ctext)
    for f, old in base_l.items():
        new = cur_l.get(f)
        if new is None or len(new) != len(old) or [t for t, _ in old] != [t for t, _ in new]:
            continue
        mp = {o: n for (_, o), (_, n) in zip(old, new) if o != n}
        if not mp:
            continue
        if set(mp) & set(n for _, n in new) or set(mp.values()) & set(o for _, o in old):
            continue
        ren.setdefault(f, {}).update(mp)
    return ren


def apply_renames(lines, mp):
    if not mp:
        return lines
    rx = re.compile(r'\b(%s)\b' % '|'.join(re.escape(k) for k in mp))
    return [rx.sub(lambda m: mp[m.group(1)], l) for l in lines]


def add_loop_locals(clauses, locals_):
    """every local the loop assigns directly is part of the loop's assigns clause (see cxx2c.loop_locals)"""
    if not locals_:
        return clauses
    out = []
    done = False
    for c in clauses:
        m = re.match(r'^(\s*(?:/\*.*?\*/\s*)?__CPROVER_assigns\()(.*)(\)\s*)$', c)
        if m and not done:
            have = set(re.findall(r'(?<![\w.>])([A-Za-z_]\w*)(?![\w(.\[-])', m.group(2)))
            extra = [l for l in locals_ if l not in have]
            inner = m.group(2).strip()
            c = m.group(1) + ', '.join(([inner] if inner else []) + extra) + m.group(3)
            done = True
        out.append(c)
    return out


def splice(ctext, comp, drop=()):
    """insert contracts at the /*@CONTRACT f*/ and /*@LOOP f n*/ markers.
    returns (text, tagmap) where tagmap maps output line number -> list of tags.
    drop: functions whose contract no longer compiles against the current code (e.g. a parameter it names is gone): their
    contracts and loop contracts are left out and reported as missing (undecided), the other contracts are still checked"""
    out = []
    renames = parameter_renames(ctext, comp)
    tagmap = {}
    used_f, used_l = set(), set()
    proto_end_seen = False
    for ln in ctext.split('\n'):
        m = re.match(r'^\s*/\*@CONTRACT (\w+)\*/\s*$', ln)
        if m:
            f = m.group(1)
            if f in comp.functions and f not in drop:
                used_f.add(f)
                for c in apply_renames(comp.functions[f], renames.get(f)):
                    out.append(c)
                    t = TAG_RE.match(c)
                    if t:
                        tagmap[len(out)] = re.findall(r'\[([^\]]+)\]', t.group(1))
            continue
        m = re.match(r'^\s*/\*@LOOP (\w+) (\d+)(?: locals: ([\w ]+))?\*/\s*$', ln)
        if m:
            key = (m.group(1), int(m.group(2)))
            if key in comp.loops and key[0] not in drop:
                used_l.add(key)
                for c in add_loop_locals(apply_renames(comp.loops[key], renames.get(key[0])), (m.group(3) or '').split()):
                    out.append(c)
            continue
        out.append(ln)
        if ln.startswith('/* prototypes */'):
            proto_end_seen = True
        if proto_end_seen and ln == '' and comp.prelude is not None and not getattr(comp, '_prelude_done', False):
            out.append('/* prelude from the spec file */')
            for f, new, _kl in getattr(comp, 'clones', []):
                m = re.search(r'/\*@FUNC %s\*/\n(.*)\n' % re.escape(f), ctext)
                if m:
                    out.append(m.group(1).replace(f + '(', new + '(', 1) + '; /* @clone */')
            out.extend(comp.prelude)
            out.append('')
            comp._prelude_done = True
    comp._prelude_done = False
    # @clone F NEW: mechanical duplicate of the extracted function F under the name NEW (no contract), usable as a
    # specification function in harnesses
    text = '\n'.join(out)
    for f, new, keep_loops in getattr(comp, 'clones', []):
        m = re.search(r'/\*@FUNC %s\*/\n(.*?\n)/\*@CONTRACT \w+\*/\n\{\n(.*?)\n\}\n' % re.escape(f), ctext, re.S)
        if not m:
            return text, tagmap, ['@clone ' + f], []
        sig = m.group(1).split('\n')[0].replace(f + '(', new + '(', 1)
        blines = []
        for l in m.group(2).split('\n'):
            lm = re.match(r'^\s*/\*@LOOP (\w+) (\d+)(?: locals: [\w ]+)?\*/', l)
            if lm:
                if keep_loops:
                    blines.extend(comp.loops.get((lm.group(1), int(lm.group(2))), []))
                continue
            blines.append(l)
        body = '\n'.join(blines)
        text += '\n/* @clone of %s (same extracted body, no contract) */\n%s\n{\n%s\n}\n' % (f, sig, body)
    out = text.split('\n')
    missing = [f for f in comp.functions if f not in used_f]
    missing_l = [k for k in comp.loops if k not in used_l]
    return '\n'.join(out), tagmap, missing, missing_l
