# claims table for gen_manifest.py (python; uses claim(), TB, RG, NOT_APPLICABLE)
LOCKS_DONE = "PessimisticLock and OptimisticLock: unbounded rely/guarantee proof. MCSLock: every protocol step is checked against its step obligation for arbitrary contents of all shared words, relative to the ASSUMED global queue invariant Q (listed in the evidence). "

claim('C01', 'proof',
      "Lock-word invariant and grant legality (the S/SIX/X matrix at the instant of every grant) asserted at every atomic step of every lock function, for an arbitrary pre-state and arbitrary interference; unbounded in threads, schedules and holder counts.",
      TB + RG + LOCKS_DONE, "CBMC code contracts on extracted C + rely/guarantee ghost state", "3 C01")
claim('C02', 'proof',
      "Safety core of progress: every release step removes exactly the releasing thread's grant exactly once and restores the word; the lock constructor starts free; admission lambdas are proved against their grant post-conditions. Fair termination of the spin loops is assumed, not proved.",
      TB + RG + LOCKS_DONE + "Assumed: fair scheduling, finitely many spurious CAS failures, termination of the spin loops (no decreases clause).",
      "CBMC code contracts on extracted C (partial correctness of the hand-off steps)", "3 C02")
claim('C03', 'proof',
      "Post-conditions of GetVersion / VerifyVersion / TryLockS/SIX/X over the value actually read: no X bit at the check, result <=> stored version equals current version, stored version refreshed, success implies (tracked pair) no exclusive section ended since the version was taken.",
      TB + RG + "Hypothesis of the property (no republished version) is an explicit assume on the X-ending steps; optimistic readers' own memory-model side (fence+relaxed load) is not decided here.",
      "CBMC code contracts + ghost commit counter invariant", "3 C03")
claim('C07', 'proof',
      "Per-function contracts of all guard classes: constructors, operator bool, move construction/assignment, destructors, Lock*/TryLock*/PrepareRead results, UpgradeToX/DowngradeToSIX; exactly-once release via ghost holder counts and a ghost write counter.",
      TB + RG + LOCKS_DONE + "Self-move-assignment is excluded by precondition.", "CBMC code contracts (ghost ownership counts)", "3 C07")
claim('C08', 'proof',
      "Ghost view model of C++ release/acquire (release sequences, fences) inside the atomic stubs with one skolem earlier section: every grant-ending step must publish, every granting step must have acquired every completed conflicting section; memory_order arguments are taken from the source.",
      TB + RG + LOCKS_DONE + "Values are read from the latest write (no stale reads); optimistic (non-locking) readers are out of scope of this property.",
      "CBMC code contracts + ghost happens-before views; replay = ThreadSanitizer on the real code", "3 C08")
claim('C09', 'proof',
      "Step guarantee G.version (version bits change only in a step that ends my exclusive grant) at every atomic step of OptimisticLock, plus XGuard field contracts (old/new version, SetVersion, moves) and 'the released word equals exactly the requested version'.",
      TB + RG, "CBMC code contracts + rely/guarantee step assertion", "3 C09")
claim('C10', 'proof',
      "G.nogap (my holdings of {SIX,X} never become empty during a conversion), single-step flip, legality of the X side (no other holder of any mode at the flip); lemma: while I hold SIX or X no other thread obtains SIX or X.",
      TB + RG + LOCKS_DONE, "CBMC code contracts + rely/guarantee step assertion", "3 C10")
claim('C13', 'proof',
      "Contract of PrepareRead (either a version sampled from a word without X, or a shared grant taken by a CAS whose expected word had no lock bits at all) and of every CompositeGuard function.",
      TB + RG, "CBMC code contracts", "3 C13")

ZB = "Machine arithmetic is machine arithmetic (bit-vectors, IEEE binary64 round-to-nearest); pow/log are uninterpreted with an assumed sign/NaN contract. "
claim('C06', 'other',
      "Contracts of both operator()s proved with loop contracts incl. termination (decreases): result in [min,max], u <= GetCDF(v-min), GetCDF(v-min-1) <= u, for symbolic table sizes, all u in [0,1), all four integer types; table well-formedness is the proved post-condition of UpdateCDF (skolem index); default generators return 0; a bounded native sweep supplements the assumed libm facts.",
      TB + ZB + "Approximate class: abstract CDF array justified by the proved determinism of GetCDF; monotonicity in the closed-form region assumed from libm; the table/closed-form seam is an explicit obligation (known finding); domain bounds listed in the evidence.",
      "CBMC code contracts (loop invariants + decreases) on extracted C; skolemised table facts", "3 C06")
claim('C18', 'other',
      "Proved (unbounded): structural CDF obligations of both UpdateCDF functions -- size = bin count, last bin exactly 1.0, no NaN, non-decreasing prefix (skolem index), approximate last bin = 1 when the normaliser is finite. Bounded (labelled, never counted as proved): numeric agreement with Zipf's law, monotonicity into the pinned last bin, approx == exact for n <= 100 and the 0.01 closeness on a finite (n, alpha, type) grid against a long double reference.",
      TB + ZB + "The real-analysis content of the property cannot be expressed in a CBMC contract; the slow approximate-table proofs (floating multiply/divide on SAT) run in the thorough tier only.",
      "CBMC code contracts for the structure + bounded native numeric grid", "3 C18")
claim('C19', 'proof',
      "Empty frames (__CPROVER_assigns()) of both operator()s, GetCDF and GetHarmonicNum relative to *this, determinism of GetCDF (two evaluations agree), constructor contract 'throws iff max < min' with arithmetic-safety obligations, member-wise copy/move contracts; static AST facts (defaulted special members) re-checked on every run.",
      TB + ZB + "uniform_real_distribution is stateless w.r.t. results (assumed libstdc++ fact).", "CBMC code contracts (frame conditions) + static AST facts", "3 C19")

IDN = "Flags are a block of symbolic length K <= 2^10 (MiniSat; cvc5 reaches 2^20); every flag access first takes an arbitrary value unless the invariant pins the cell (my own flag; the flag of the skolem other running thread). shared_ptr/weak_ptr are modelled by a ghost generation (assumed library contract: expired() <=> no owner left). "
claim('C05', 'proof',
      "Contract of the claim loop over a symbolic-capacity flag array under interference: returned id < K, obtained by a 0->1 exchange performed by me, different from the id of any other running thread (skolem), unchanged on later calls without touching the flags. Supplement (bounded, labelled): the same facts on the real flag array for the concrete capacities 1, 3 and 6 (groups idmk*), which also see array bounds and limits DERIVED from the capacity.",
      TB + IDN, "CBMC code contracts (loop contract over symbolic capacity, rely/guarantee on the flag cells)", "3 C05")
claim('C14', 'proof',
      "Safety part: the thread-exit destructor clears exactly the flag it owns (frame = that one cell), a flag becomes true only in the claim step of its new owner; a free slot that the loop visits is claimed. The release is proved for every behaviour of observers of the heartbeat (a promoted weak_ptr is an arbitrary constant of the proof). Probe-order coverage (a thread that finds all other ids taken reaches the one free slot within K probes) is BOUNDED (labelled): symbolic capacities 1..8 with every start position (unwind 10 with unwinding assertions) and concrete capacities 1, 3, 6 on the real flag array (groups idmk*). Termination of GetThreadID under contention is assumed (liveness).",
      TB + IDN + "Assumed: fair termination of the claim loop; probe coverage beyond capacity 8 (no loop counter exists to state it as an invariant).", "CBMC code contracts (frame + guarantee assertions)", "3 C14")
claim('C15', 'proof',
      "Exit-path ordering obligation (the reservation flag is released only after my heartbeat generation died), only SetID creates a generation, GetHeartBeat returns a weak reference to my live generation; owners held by the library (member, copies, moved-to objects, temporaries) are counted, the flag may be released only when none is left.",
      TB + IDN + "The cross-thread conclusion (when I am given id k every earlier heartbeat for k is expired) is the same obligation seen from the other thread (rely/guarantee symmetry, paper argument).",
      "CBMC code contracts + ghost heartbeat generations; replay through the atomic-interposition scheduler", "3 C15")

EPN = "Slots are a block of symbolic length K <= 2^10; the coordinator sees every untracked slot as arbitrary (expired, unpinned, or pinning a value <= current epoch); std::vector<size_t> is abstract (size, membership of two tracked values, max/min/last); sort/unique/erase are assumed library contracts. "
claim('C04', 'other',
      "Proof of every obligation but one: the nested-guard lemma fails on the pinned tree and is a recorded known finding (so this is not a proof of the whole property). Contracts of EnterEpoch / EpochGuard / CreateEpochGuard / CollectProtectedEpochs (loop invariant over the symbolic capacity) / ForwardGlobalEpoch with one skolemised tracked guard: its epoch is in the list published for the new epoch and the stored minimum does not exceed it; the C15 exit-order obligation of IDManager is part of this property's obligation set. EpochGuard move assignment is specified from the statement (the guard that takes over a grant stays pinned; repaired defect 4a559c4). Two guards of one thread alive at once: the nested case is a recorded known finding (client-level lemma group epoch.nested_guards, replayed on the real code).",
      TB + EPN + "List-node chain operations are replaced by contracts inside ForwardGlobalEpoch (checked bounded under C20).", "CBMC code contracts with skolemised tracked guard", "3 C04")
claim('C16', 'proof',
      "Step guarantees on the two epoch words (global epoch written only by the coordinator, +1 per call, release order; min <= current at its store), LeaveEpoch / guard destruction unpin, quiescent case: the published list is exactly {new, new-1} and min = new-1; constructor state checked on the extracted constructor.",
      TB + EPN, "CBMC code contracts + step assertions in the atomic stubs", "3 C16")
claim('C17', 'other',
      "Proved: every pinned epoch is a value of the global epoch read in the same call, the list published for an epoch is strictly descending with first element = that epoch and contains the previous one; obligation 'the node of my pinned epoch is still linked at lookup time' under the coordinator rely (fails on the two-step EnterEpoch: recorded known finding, replayed with the interposition scheduler). Chain lookup/retirement: bounded (<= 5 nodes).",
      TB + EPN, "CBMC code contracts + rely on coordinator steps; bounded chain groups", "3 C17")
claim('C20', 'other',
      "Proved: exact contents of the published list (two tracked-value inclusions, strict descent from the assumed sort/unique contracts, min = last). Bounded (labelled, <= 5 nodes, <= 6 values, unwind 8 with unwinding assertions): RemoveOutDatedLists keeps exactly head + nodes holding a protected epoch + tail and deletes the rest once, memory safety, destructor frees all nodes, lookup returns the right node. The memory bound additionally uses a [suff] obligation (every ForwardGlobalEpoch trims the chain against the list it publishes) whose failure counts only together with a failing history replayed on the real code.",
      TB + EPN + "CBMC contracts have no unbounded linked-structure predicate, hence the bounded part.", "CBMC code contracts + bounded unwinding of the real list code", "3 C20")

claim('C12', 'proof',
      "Node life-cycle obligations on the extracted MCSLock code: a request takes at most one node and either publishes it or hands it back; a release recycles the group's node iff its own update left no flag behind (tail path: iff it freed the lock word); at most one recycle per call; no access to a node after it was handed back.",
      TB + RG + "Relative to the assumed queue invariant Q (cross-thread use-after-recycle is excluded only by Q); unique_ptr cache semantics are an assumed library contract.",
      "CBMC code contracts + ghost node life cycle in the MCS stubs; replay by allocation counting on the real lock", "3 C12")
