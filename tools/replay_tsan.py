"""C08 replay: ThreadSanitizer two-thread programs on the real lock classes (DESIGN.md 2.7)"""
import os
import re

import replayers

ROOT = replayers.ROOT

SCENARIOS = [
    (r'TryLockX', ['S_during_TryLockX']),
    (r'TryLockSIX', ['Xrepublish_during_TryLockSIX']),
    (r'TryLockS', ['Xrepublish_during_TryLockS']),
    (r'PrepareRead', ['Xrepublish_during_PrepareRead']),
    (r'UpgradeToX', ['S_then_upgrade', 'S_before_SIX_upgrade']),
    (r'DowngradeToSIX', ['downgrade_then_S']),
    (r'UnlockSIX|SIXGuard', ['SIX_then_X']),
    (r'UnlockS|SGuard|CompositeGuard', ['S_then_X', 'twoS_then_X']),
    (r'UnlockX|XGuard', ['X_then_S', 'X_then_X', 'X_then_SIX']),
    (r'LockSIX', ['X_then_SIX']),
    (r'LockS', ['X_then_S']),
    (r'LockX', ['X_then_X', 'S_then_X', 'SIX_then_X']),
]


def attempt(cls, group, ob):
    exe, err = replayers.build('tsan_lock', [os.path.join(ROOT, 'replay', 'tsan_lock.cpp')] + replayers.lock_sources(),
                               extra=['-fsanitize=thread', '-include', os.path.join(ROOT, 'replay', 'atomic_shim.hpp'),
                                      '-I' + os.path.join(ROOT, 'replay'), '-UCPP_UTILITY_SPINLOCK_RETRY_NUM', '-DCPP_UTILITY_SPINLOCK_RETRY_NUM=0'], compiler='clang++')
    if exe is None:
        return {'reproduced': False, 'detail': 'TSan replayer build failed: ' + err}
    g = group.split('.', 1)[1]
    scs = None
    for pat, s in SCENARIOS:
        if re.search(pat, g):
            scs = s
            break
    if scs is None:
        return {'reproduced': False, 'detail': 'no TSan scenario for group %s' % group}
    tried = []
    env = dict(os.environ, TSAN_OPTIONS='halt_on_error=0 exitcode=66')
    import subprocess
    if cls == 'mcs':
        scs = [x for x in scs if x != 'S_then_upgrade']   # an MCS shared request queued behind SIX waits for it: use the S-first variant
    for sc in scs:
        try:
            p = subprocess.run([exe, cls, sc], capture_output=True, text=True, timeout=120, env=env)
            rc, out = p.returncode, p.stdout + p.stderr
        except subprocess.TimeoutExpired:
            rc, out = 124, 'timeout'
        tried.append('%s:%s rc=%d' % (cls, sc, rc))
        if rc == 66 and "global 'payload'" in out:
            blocks = out.split('==================')
            blk = [b for b in blocks if "global 'payload'" in b]
            lines = [l for l in (blk[0] if blk else out).split('\n') if l.strip() and ('data race' in l or 'payload' in l or 'mcs_lock.cpp' in l or 'lock.cpp' in l or 'of size' in l)][:12]
            return {'reproduced': True, 'command': 'tsan_lock %s %s' % (cls, sc),
                    'input': {'class': cls, 'scenario': sc},
                    'observed': lines,
                    'how': 'clang++ -fsanitize=thread -include /verif/replay/atomic_shim.hpp /verif/replay/tsan_lock.cpp /repo/src/lock/*.cpp; two conflicting sections touch a plain payload; ThreadSanitizer honours the memory_order arguments of the source'}
    return {'reproduced': False, 'detail': 'ThreadSanitizer reported no race on the payload', 'tried': tried}
