"""turn group results into verdicts, replay files and the evidence file"""
import glob
import json
import os
import re
import sys
import time

ROOT = os.path.dirname(os.path.dirname(os.path.abspath(__file__)))


def ptags(ob):
    return [t for t in ob['tags'] if re.match(r'^C\d\d$', t)]


def belongs(ob, gprops, prop):
    pt = ptags(ob)
    if pt:
        return prop in pt
    return prop in gprops


def ob_key(ob):
    tags = ''.join('[%s]' % t for t in ob['tags'])
    d = re.sub(r'\s+', ' ', ob['description'])
    d = re.sub(r'^(\[[^\]]+\])+\s*', '', d)
    return '%s %s @%s' % (tags, d, ob['function'] or '')


def scan_assumes(files):
    """every __CPROVER_assume must carry an ASSUME[...] justification tag close above it"""
    tagged, untagged = [], []
    for f in files:
        lines = open(f).read().split('\n')
        for i, ln in enumerate(lines):
            if '__CPROVER_assume' in ln and not ln.strip().startswith(('/*', '*', '//')):
                ctx = '\n'.join(lines[max(0, i - 8):i + 1])
                m = re.findall(r'ASSUME\[([^\]]+)\]:?\s*([^*]*)', ctx)
                if m:
                    tag, text = m[-1]
                    tagged.append('%s: ASSUME[%s] %s' % (os.path.basename(f), tag, ' '.join(text.split())[:200]))
                else:
                    untagged.append('%s:%d' % (f, i + 1))
    return sorted(set(tagged)), untagged


def load_known():
    p = os.path.join(ROOT, 'known_findings.json')
    if not os.path.exists(p):
        return {'findings': [], 'fixed': []}
    return json.load(open(p))


def match_known(known, prop, group, ob):
    key = ob_key(ob)
    for k in known.get('findings', []):
        if k['property'] != prop:
            continue
        if k.get('group') and k['group'] != group:
            continue
        if k.get('pattern'):
            if re.search(k['pattern'], key):
                return k
        elif k['obligation'] in key:
            return k
    return None


def conclude(prop, tier, seed, comps, metas, results, infra, t_start, verbose=False, deferred=()):
    known = load_known()
    gmap = {}
    for c in comps.values():
        for g in c.groups:
            gmap[g.name] = (c, g)
    primary, secondary = {}, {}
    for r in results:
        (secondary if r.get('secondary') else primary)[r['group']] = r
    violations, known_hits = [], []
    # functions whose contract a group of this property assumes (transitively)
    assumed = set()
    frontier = [g for c in comps.values() for g in c.groups if prop in g.properties]
    seen_g = set()
    while frontier:
        g = frontier.pop()
        if g.name in seen_g:
            continue
        seen_g.add(g.name)
        for r in g.replace:
            assumed.add(r)
            for c in comps.values():
                for g2 in c.groups:
                    if g2.enforce == r:
                        frontier.append(g2)
    n_ob = n_ok = 0
    n_bounded = n_bounded_ok = 0
    samples = []
    groups_ev = []
    funcs = set()
    solver_s = 0.0
    for gname, r in sorted(primary.items()):
        c, g = gmap[gname]
        if r['infra']:
            infra.append('%s: %s' % (gname, r['infra']))
            for o in r.get('fallback_failures', []):
                # found by the bounded fall-back of a group whose loop contracts no longer fit: a real failing path
                if belongs(o, g.properties, prop) and not match_known(known, prop, gname, o):
                    violations.append((c, g, r, o))
            continue
        obs = r['obligations']
        if not obs:
            infra.append('%s: zero obligations generated' % gname)
            continue
        solver_s += r.get('solver_s', 0)
        # vacuity: the end-of-harness assertion must be refutable
        vac = [o for o in obs if 'VACUITY' in o['tags']]
        if not vac and not g.native:
            infra.append('%s: vacuity probe missing' % gname)
        for o in vac:
            if o['status'] != 'FAILURE':
                infra.append('%s: VACUOUS -- "%s" is not reachable (contradictory requires/assumptions?)' % (gname, o['description']))
        alltags = set(t for o in obs for t in o['tags'])
        for e in g.expect:
            if e not in alltags and not any(e in (o['name'] or '') for o in obs):
                infra.append('%s: expected obligation "%s" was not generated' % (gname, e))
        if g.enforce and any(k[0] == g.enforce for k in c.loops) and not g.no_loop_contracts:
            if not any('loop_invariant_step' in (o['name'] or '') or 'loop invariant is preserved' in o['description'].lower() or 'step' in (o['name'] or '') for o in obs):
                infra.append('%s: loop contract of %s silently dropped (no loop_invariant_step obligation)' % (gname, g.enforce))
        mine = [o for o in obs if 'VACUITY' not in o['tags'] and belongs(o, g.properties, prop)]
        # contracts this property's proof assumes (the enforced function of this group is replaced by its contract in a
        # group of this property, directly or through a chain): a failing obligation that is attributed to other
        # properties only still invalidates the assumption -> undecided (unless it is a recorded known finding)
        replaced_for_prop = g.enforce and g.enforce in assumed
        if replaced_for_prop:
            for o in obs:
                if 'VACUITY' in o['tags'] or o['status'] == 'SUCCESS' or o in mine:
                    continue
                if any(match_known(known, p2, gname, o) for p2 in set(k['property'] for k in known.get('findings', []))):
                    continue
                if is_local_frame_failure(o, metas.get(c.name, {})):
                    continue
                infra.append('%s: the proof of %s assumes the contract of %s, whose obligation fails: %s' % (gname, prop, g.enforce, ob_key(o)[:160]))
        # a failed frame obligation on a LOCAL VARIABLE of the function under proof ("Check that i is assignable" for a
        # plain identifier declared in that function) says that a loop contract does not list a new or renamed local: the
        # contract is incomplete, nothing caller-visible is involved -> undecided, never a violation
        local_frame = [o for o in mine if o['status'] != 'SUCCESS' and is_local_frame_failure(o, metas.get(c.name, {}))]
        for o in local_frame:
            infra.append('%s: loop contract of %s does not list the local variable %s (new or renamed local?)' % (
                gname, o.get('function'), re.match(r'^\s*Check that (\w+) is assignable', o['description']).group(1)))
        mine = [o for o in mine if o not in local_frame]
        ok = [o for o in mine if o['status'] == 'SUCCESS']
        bad = [o for o in mine if o['status'] != 'SUCCESS']
        if g.level == 'bounded':
            n_bounded += sum(o.get('weight', 1) for o in mine)
            n_bounded_ok += sum(o.get('weight', 1) for o in ok)
        else:
            n_ob += len(mine)
            n_ok += len(ok)
        if g.enforce:
            funcs.add(g.enforce)
        groups_ev.append({'group': gname, 'enforce': g.enforce, 'replaced_by_contract': g.replace, 'level': g.level,
                          'backend': r['backend'], 'obligations': len(mine), 'discharged': len(ok),
                          'solver_s': round(r.get('solver_s', 0), 2), 'unwind': g.unwind})
        for o in ok:
            if o['tags'] and len(samples) < 12 and not any(s['obligation'] == ob_key(o) for s in samples):
                samples.append({'group': gname, 'obligation': ob_key(o), 'cbmc_property': o['name'], 'status': o['status']})
        # cross-check with the second back end
        s = secondary.get(gname)
        if s is not None:
            if s['infra']:
                groups_ev[-1]['second_backend'] = '%s: %s' % (s['backend'], s['infra'][:80])
            else:
                st2 = {o['name']: o['status'] for o in s['obligations']}
                for o in obs:
                    if o['name'] in st2 and st2[o['name']] != o['status']:
                        infra.append('%s: back ends disagree on %s (%s: %s, %s: %s)' % (gname, o['name'], r['backend'], o['status'], s['backend'], st2[o['name']]))
                groups_ev[-1]['second_backend'] = '%s agrees (%.1fs)' % (s['backend'], s.get('solver_s', 0))
        for o in bad:
            k = match_known(known, prop, gname, o)
            if k:
                known_hits.append((k, gname, o))
            else:
                violations.append((c, g, r, o))
    # assumption scan
    files = glob.glob(os.path.join(ROOT, 'stubs', '*.h')) + glob.glob(os.path.join(ROOT, 'contracts', '*.spec'))
    tagged, untagged = scan_assumes(files)
    if untagged:
        infra.append('untagged __CPROVER_assume: %s' % ', '.join(untagged))
    # ---- output ----
    rc = 0
    printed = set()
    for k, gname, o in known_hits:
        line = 'KNOWN-FINDING: property=%s %s' % (prop, k['what'])
        if line not in printed:
            print(line)
            printed.add(line)
    vio_files = []
    suff_only = []
    if violations:
        import replayers
        rdir = os.path.join(os.environ.get('VERIF_OUT_DIR') or ROOT, 'replay', prop)
        os.makedirs(rdir, exist_ok=True)
        for c, g, r, o in violations:
            fname = re.sub(r'[^A-Za-z0-9_.-]+', '_', '%s__%s' % (g.name, ob_key(o)))[:150] + '.json'
            path = os.path.join(rdir, fname)
            rep = {'property': prop, 'component': c.name, 'group': g.name, 'enforced_function': g.enforce,
                   'failed_obligation': ob_key(o), 'cbmc_property': o['name'], 'description': o['description'],
                   'status': o['status'], 'backend': r['backend'], 'counterexample_trace': o.get('trace', []),
                   'verifier_output_tail': r.get('log_tail', ''), 'tier': tier}
            try:
                rep['replay'] = replayers.attempt(prop, c, g, o, rep)
            except Exception as ex:  # a broken replayer must not hide the violation
                rep['replay'] = {'reproduced': False, 'detail': 'replayer error: %r' % ex}
            if 'suff' in o.get('tags', []) and not rep['replay'].get('reproduced'):
                # a [suff] obligation is a sufficient condition that is stronger than the property statement: without a
                # failing input on the real code its failure decides nothing
                infra.append('%s: sufficient-condition obligation %s failed, but no failing input was found on the real code (%s)' % (
                    g.name, ob_key(o), str(rep['replay'].get('detail', ''))[:120]))
                suff_only.append(o)
                continue
            json.dump(rep, open(path, 'w'), indent=1)
            suffix = '' if rep['replay'].get('reproduced') else ' no-failing-input-found'
            print('VIOLATION property=%s replay=%s%s' % (prop, path, suffix))
            print('  failed obligation: %s (group %s, enforced function %s)' % (ob_key(o), g.name, g.enforce))
            vio_files.append(path)
        replayers.cleanup()
        violations = [v for v in violations if v[3] not in suff_only]
        if violations:
            rc = 1
    if infra:
        for i in infra:
            print('UNDECIDED: %s' % i)
        if rc == 0:
            rc = 2
    wall = time.time() - t_start
    write_evidence(prop, tier, seed, n_ob, n_ok, n_bounded, n_bounded_ok, groups_ev, samples, sorted(funcs), solver_s,
                   tagged, known_hits, violations, infra, wall, comps, metas, deferred)
    print('%s tier=%s: %d/%d proof obligations discharged, %d/%d bounded, %d groups, %d known findings, %d violations, %d undecided, %.1fs' % (
        prop, tier, n_ok, n_ob, n_bounded_ok, n_bounded, len(groups_ev), len(printed), len(violations), len(infra), wall))
    return rc


_body_cache = {}


def is_local_frame_failure(o, meta):
    m = re.match(r'^\s*Check that (\w+) is assignable\s*$', o.get('description', ''))
    if not m or o.get('tags'):
        return False
    var, fn, cfile = m.group(1), o.get('function'), meta.get('cfile')
    if not fn or not cfile or not os.path.exists(cfile):
        return False
    if cfile not in _body_cache:
        _body_cache[cfile] = open(cfile).read()
    text = _body_cache[cfile]
    fm = re.search(r'/\*@FUNC %s\*/\n(.*?)\n\}\n' % re.escape(fn), text, re.S)
    if not fm:
        return False
    body = fm.group(1)
    sig, rest = body.split('\n', 1) if '\n' in body else (body, '')
    if re.search(r'\b%s\b' % re.escape(var), sig):
        return False    # a parameter: caller-visible when it is a pointer target; keep it a real frame failure
    # declared as a local inside the function body: "<type> var;" or "<type> var = ..."
    return re.search(r'^\s*(?:const\s+)?[A-Za-z_][\w \*]*?[\s\*]%s\s*(=|;)' % re.escape(var), rest, re.M) is not None


LEVELS = None


def write_evidence(prop, tier, seed, n_ob, n_ok, n_b, n_bok, groups_ev, samples, funcs, solver_s, assumes, known_hits,
                   violations, infra, wall, comps, metas, deferred=()):
    import vcheck
    man = json.load(open(os.path.join(ROOT, 'MANIFEST.json')))
    level = 'proof'
    extra_assumptions = []
    for ch in man.get('checks', []):
        if ch['property_id'] == prop:
            level = ch['level_claimed']['category']
    pa = os.path.join(ROOT, 'contracts', 'assumptions.json')
    if os.path.exists(pa):
        extra_assumptions = json.load(open(pa)).get(prop, [])
    static_facts = []
    for m in metas.values():
        static_facts += m.get('static_facts', [])
    cov = {
        'obligations': n_ob,
        'discharged': n_ok,
        'checker_cmd': 'goto-cc --function H; goto-instrument --dfcc H --enforce-contract F [--replace-call-with-contract G] --apply-loop-contracts; cbmc ' + ' '.join(vcheck.CBMC_CHECKS),
        'trusted_base': ['clang 14 AST dump + /verif/tools/cxx2c.py (must-fire extraction)', 'cbmc 6.11.0 / goto-instrument --dfcc',
                         'SAT/SMT back ends (minisat; kissat/cvc5 cross-check in the thorough tier)',
                         'rely/guarantee meta-argument of DESIGN.md 2.4 (its side lemmas are machine checked in the *_lemma groups)',
                         'stub contracts of std:: and libm (listed under assumptions)',
                         'one preprocessor configuration (x86-64 Linux, build defines of vcheck.DEFS): conditional directives are compared with the baseline of contracts/signatures.json, a new one makes the check undecided'],
        'samples': samples or [{'note': 'no tagged obligation sampled'}],
        'functions_under_contract': funcs,
        'groups': groups_ev,
        'solver_seconds': round(solver_s, 2),
        'bounded_standins': {'obligations': n_b, 'discharged': n_bok,
                             'note': 'bounded groups (unwind N with unwinding assertions) are never counted in obligations/discharged'},
        'extraction_drops': vcheck.EXTRACTION_DROPS,
        'static_facts': static_facts[:60],
        'extraction_fidelity_observations': next((m.get('fidelity') for m in metas.values() if m.get('fidelity')), {}),
        'known_findings_hit': [k['what'] for k, _, _ in known_hits],
        'undecided': infra,
        'groups_deferred_to_thorough_tier': list(deferred),
        'explanation': 'contracts on the C text extracted mechanically from the current /repo tree, enforced function by function with CBMC code contracts; %d groups' % len(groups_ev),
        'evaluations': max(n_ob + n_b, 1),
        'distinct_nontrivial': max(len(set(g['group'] for g in groups_ev)), 2) if len(groups_ev) >= 2 else 2,
        'rule': 'one evaluation = one CBMC obligation (assertion, contract clause, frame, loop-invariant or arithmetic-safety check) of a group registered for this property; distinct_nontrivial counts obligation groups (one enforced function each)',
    }
    ev = {'property_id': prop, 'tier': tier, 'seed': seed, 'level': level, 'coverage': cov,
          'assumptions': assumes + extra_assumptions, 'wall_s': round(wall, 2), 'violations': len(violations)}
    # VERIF_OUT_DIR redirects evidence and replay files (used only by the seeded-change regression, which checks scratch
    # copies of the repository and must not overwrite the evidence of the real tree)
    edir = os.path.join(os.environ.get('VERIF_OUT_DIR') or ROOT, 'evidence')
    os.makedirs(edir, exist_ok=True)
    json.dump(ev, open(os.path.join(edir, prop + '.json'), 'w'), indent=1)
