#!/usr/bin/env python3
"""regenerates /verif/MANIFEST.json from the table below (kept in one place so that it stays valid)"""
import json
import os

ROOT = os.path.dirname(os.path.dirname(os.path.abspath(__file__)))
TB = ("Trusted: clang 14 AST dump + /verif/tools/cxx2c.py extraction (must-fire tables; dropped items listed in every evidence file), "
      "cbmc 6.11 --dfcc and its SAT/SMT back ends, the stub contracts of std::/libm listed in the evidence, "
      "single-location sequential consistency of each std::atomic object (no stale-read modelling). ")
RG = ("Concurrency is decided by rely/guarantee over atomic steps (DESIGN.md 2.4): every atomic stub first applies an arbitrary "
      "environment transition under the global invariant, then the real operation, then asserts the guarantee derived from the old/new word values; "
      "the meta-lemmas (G implies R, R transitive, invariant implies matrix) are machine-checked in the *.rg_lemmas groups; the induction over interleavings is a paper argument. ")

CLAIMS = {}
NOT_APPLICABLE = {
    'C11': "FIFO/arrival order is a whole-history relation between two threads' requests; no function contract or per-step guarantee can state it and CBMC's interleaving engine rejects the pointer-based code (DESIGN.md section 4)",
}


def claim(pid, category, text, note, technique, design_ref):
    CLAIMS[pid] = dict(category=category, text=text, note=note, technique=technique, design_ref=design_ref)


execfile = None
exec(open(os.path.join(ROOT, 'tools', 'manifest_claims.py')).read())


def main():
    m = {
        "version": 1,
        "setup_cmd": "true",
        "hooks": {
            "guard": "CPP_UTILITY_VERIF",
            "enable": "no hooks: verification reads /repo through clang's AST dump on every run; replay builds the unmodified sources with -include /verif/replay/atomic_shim.hpp",
            "baseline_off_cmd": "cmake --build /repo/_build && ctest --test-dir /repo/_build -j8 --timeout 900",
            "source_commits": [],
            "add_only": True,
        },
        "engines": [{"name": "vcheck", "path": "/verif/vcheck.py", "serves_properties": sorted(CLAIMS),
                     "kind_free_text": "clang AST -> C extraction, CBMC code contracts (goto-instrument --dfcc), native replay (g++/clang++ TSan, atomic interposition scheduler)"}],
        "checks": [],
        "not_applicable": [],
        "notes": "All checks: python3 /verif/vcheck.py --property <id> --tier quick|thorough. exit 0 ok / 1 VIOLATION / 2 undecided (infrastructure). Genuine defects repaired in /repo are listed in /verif/known_findings.json under 'fixed'.",
    }
    for i in range(1, 21):
        pid = 'C%02d' % i
        if pid in CLAIMS:
            c = CLAIMS[pid]
            m['checks'].append({
                "property_id": pid,
                "quick_cmd": "python3 /verif/vcheck.py --property %s --tier quick" % pid,
                "thorough_cmd": "python3 /verif/vcheck.py --property %s --tier thorough" % pid,
                "evidence_file": "/verif/evidence/%s.json" % pid,
                "replay_cmd_template": "python3 /verif/vcheck.py --replay {path}",
                "engine": "vcheck",
                "level_claimed": {"category": c['category'], "text": c['text'], "design_ref": c['design_ref']},
                "level_note": c['note'],
                "technique": c['technique'],
            })
        else:
            m['not_applicable'].append({"property_id": pid, "reason": NOT_APPLICABLE.get(pid, "not built yet (machinery under construction, see DESIGN.md section 8)")})
    json.dump(m, open(os.path.join(ROOT, 'MANIFEST.json'), 'w'), indent=1)


main()
