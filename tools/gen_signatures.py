#!/usr/bin/env python3
"""writes contracts/signatures.json: the parameter names of every extracted function as they are spelled in the tree the
contracts were written against (run once after writing/adapting contracts; see spec.parameter_renames)"""
import json
import os
import sys
ROOT = os.path.dirname(os.path.dirname(os.path.abspath(__file__)))
sys.path.insert(0, ROOT)
sys.path.insert(0, os.path.join(ROOT, 'tools'))
import cxx2c
import spec
import vcheck

out = {}
for name, comp in vcheck.load_components().items():
    src = os.path.join(vcheck.REPO, comp.source)
    extra = []
    if comp.driver_tu:
        src_tu = os.path.join(ROOT, comp.driver_tu)
        extra = ['-DVERIF_REPO_SRC="%s"' % src]
    else:
        src_tu = src
    text, meta = cxx2c.extract(src_tu, [os.path.join(vcheck.REPO, 'include'), vcheck.REPO], vcheck.DEFS, comp.symbolic, extra)
    keep = lambda f: f in comp.functions or any(k[0] == f for k in comp.loops)
    out[name] = {f: p for f, p in spec.signatures_of(text).items() if keep(f)}
    out[name + '#functions'] = sorted(spec.signatures_of(text))
    out[name + '#statics'] = sorted(meta.get('storage', {}))
    out[name + '#locals'] = {f: p for f, p in spec.locals_of(text).items() if keep(f) and p}
out['#conditionals'] = vcheck.conditional_directives()
json.dump(out, open(os.path.join(ROOT, 'contracts', 'signatures.json'), 'w'), indent=1, sort_keys=True)
print({k: len(v) for k, v in out.items()})
