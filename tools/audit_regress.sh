#!/bin/bash
# usage: audit_regress.sh      re-runs the reviewer mutants of /verif/audit_mutants (DESIGN A.13, round 3) against a
# scratch worktree of /repo (never /repo itself); prints one line per mutant; exit 1 if an expected exit code differs
set -u
WT=/tmp/audreg_wt_$$; OUT=/tmp/audreg_out_$$
git -C /repo worktree add -q --detach $WT HEAD || exit 2
mkdir -p $OUT
BAD=0
while read -r NAME PROP WANT; do
  [ -z "$NAME" ] && continue
  git -C $WT checkout -q -- . && git -C $WT clean -qfd && git -C $WT apply /verif/audit_mutants/$NAME.diff || { echo "$NAME: patch does not apply"; BAD=1; continue; }
  VERIF_REPO=$WT VERIF_OUT_DIR=$OUT python3 /verif/vcheck.py --property $PROP --tier quick > $OUT/log 2>&1; RC=$?
  echo "$NAME $PROP rc=$RC (expected $WANT)"
  [ $RC -eq $WANT ] || BAD=1
done <<'LIST'
round3_shadow_ptrmask C02 2
round3_shadow_pess C01 2
round3_tmpdtor C10 1
round3_byparam C10 2
round3_ifdef_arm C08 2
round3_e1 C20 1
round3_e3 C04 1
round3_e3 C16 1
round3_e3 C17 1
round3_z1 C18 1
round3_z3 C18 1
LIST
git -C /repo worktree remove --force $WT; rm -rf $OUT
exit $BAD
