#!/bin/bash
# usage: benign_regress.sh [name-prefix ...]   re-runs the stored behaviour-preserving edits (/verif/benign/*/patch.diff)
# against scratch worktrees; prints one line per edit; exit 1 if any check reports a VIOLATION (false alarm)
set -u
WT=/tmp/benreg_wt_$$; OUT=/tmp/benreg_out_$$
git -C /repo worktree add -q --detach $WT HEAD || exit 2
mkdir -p $OUT
BAD=0
for D in /verif/benign/*/; do
  N=$(basename $D)
  if [ $# -gt 0 ]; then M=0; for P in "$@"; do case $N in $P*) M=1;; esac; done; [ $M -eq 1 ] || continue; fi
  case $N in
    locks*) PROPS="C01 C02 C03 C07 C08 C09 C10 C13";;
    mcs*) PROPS="C01 C02 C07 C08 C10 C12";;
    thread*) PROPS="C04 C05 C14 C15 C16 C17 C20";;
    zipf*) PROPS="C06 C18 C19";;
    *) continue;;
  esac
  git -C $WT checkout -q -- . && git -C $WT apply $D/patch.diff || { echo "$N: patch does not apply"; continue; }
  RES=""
  for P in $PROPS; do
    VERIF_REPO=$WT VERIF_OUT_DIR=$OUT python3 /verif/vcheck.py --property $P --tier quick > $OUT/log 2>&1; RC=$?
    RES="$RES $P:rc=$RC"
    if [ $RC -eq 1 ]; then BAD=1; grep "failed obligation" $OUT/log | head -3 | cut -c1-250; fi
  done
  echo "$N:$RES"
done
git -C /repo worktree remove --force $WT; rm -rf $OUT
exit $BAD
