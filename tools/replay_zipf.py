"""replay of Zipf counterexamples on the real classes (custom RandEngine, UBSan)"""
import os
import re

import native_checks
import replayers


def attempt(prop, comp, group, ob, rep):
    g = group.split('.', 1)[1]
    m = re.search(r'_(u32|u64|i32|i64)_', g + '_')
    ty = m.group(1) if m else 'u64'
    cls = 'approx' if g.startswith('Approx') else 'exact'
    if ob.get('native'):
        return ob['native']
    desc = ob.get('description', '')
    if 'overflow' in desc and 'ctor3' in g:
        exe, err = native_checks.zipf_exe(ubsan=True)
        if exe is None:
            return {'reproduced': False, 'detail': 'UBSan build failed: ' + err}
        rc, out = replayers.run([exe, 'ctor-invalid', ty], 60)
        if rc != 0:
            return {'reproduced': True, 'command': 'zipf_replay(ubsan) ctor-invalid %s' % ty,
                    'input': {'type': ty, 'min': 'numeric_limits<T>::max()', 'max': 'numeric_limits<T>::min()', 'alpha': 1.0},
                    'observed': [l for l in out.split('\n') if l.strip()][:6],
                    'how': 'g++ -fsanitize=undefined -fno-sanitize-recover=all; the constructor of the real class is called with max < min at the type limits'}
        return {'reproduced': False, 'detail': 'UBSan reported nothing for ctor-invalid %s' % ty}
    exe, err = native_checks.zipf_exe()
    if exe is None:
        return {'reproduced': False, 'detail': 'replayer build failed: ' + err}
    cmds = []
    if prop == 'C19' or 'C19' in ob.get('tags', []) or 'assignable' in desc:
        cmds.append([exe, 'purity', cls, ty])
    if 'seam' in g:
        cmds.append([exe, 'seam', ty])
    cmds.append([exe, 'sweep', cls, ty, '7', '400'])
    if 'UpdateCDF' in g or 'ctor' in g or 'wf' in g or prop == 'C18':
        cmds.append([exe, 'grid', 'quick'])
    tried = []
    for c in cmds:
        rc, out = replayers.run(c, 900)
        tried.append(' '.join(c[1:]))
        lines = [l for l in out.split('\n') if l.startswith('REPLAY-FAIL')]
        if lines:
            return {'reproduced': True, 'command': 'zipf_replay ' + ' '.join(c[1:]), 'observed': lines[:4],
                    'how': 'real ZipfDistribution/ApproxZipfDistribution objects, custom RandEngine returning the engine word that yields the wanted u; bracket re-evaluated with the real GetCDF'}
    return {'reproduced': False, 'detail': 'native search found no failing input', 'tried': tried}
