#!/usr/bin/env python3
"""cxx2c: mechanical extraction of the real C++ function bodies of /repo into C.

Input : clang's typed AST (-Xclang -ast-dump=json) of one translation unit.
Output: one C file with one C function per *defined* function of namespace
        dbgroup (methods, constructors, destructors, lambdas, template
        specialisations), statements/expressions printed one-to-one.

Must-fire discipline: every AST node kind, cast kind, operator and library
callee has to be in the closed tables below; anything else raises
ExtractError (the driver turns that into exit 2, never into a verdict).
"""
import json
import os
import re
import subprocess
import sys


class ExtractError(Exception):
    pass


def die(msg, node=None):
    loc = ''
    if node is not None:
        r = node.get('range', {}).get('begin', {})
        loc = ' at line %s col %s kind=%s' % (r.get('line', '?'), r.get('col', '?'), node.get('kind'))
    raise ExtractError(msg + loc)


# ----------------------------------------------------------------------------
# loading
# ----------------------------------------------------------------------------

def load_docs(text):
    dec = json.JSONDecoder()
    i, n, out = 0, len(text), []
    while i < n:
        while i < n and text[i].isspace():
            i += 1
        if i >= n:
            break
        o, i = dec.raw_decode(text, i)
        out.append(o)
    return out


def clang_dump(src, flt, incs, defs, extra=()):
    cmd = ['clang++', '-std=c++20', '-fsyntax-only', '-w'] + ['-I' + i for i in incs] \
        + ['-D' + d for d in defs] + list(extra) \
        + ['-Xclang', '-ast-dump=json', '-Xclang', '-ast-dump-filter=' + flt, src]
    p = subprocess.run(cmd, capture_output=True, text=True)
    if p.returncode != 0:
        raise ExtractError('clang failed on %s: %s' % (src, p.stderr[:2000]))
    return load_docs(p.stdout)


# ----------------------------------------------------------------------------
# type mapping (closed table)
# ----------------------------------------------------------------------------

BUILTIN = {
    'bool': '_Bool', 'void': 'void', 'double': 'double',
    'int': 'int32_t', 'unsigned int': 'uint32_t', 'long': 'int64_t', 'unsigned long': 'uint64_t',
    'long long': 'int64_t', 'unsigned long long': 'uint64_t',
    'uint64_t': 'uint64_t', 'uint32_t': 'uint32_t', 'int64_t': 'int64_t', 'int32_t': 'int32_t',
    'size_t': 'size_t', 'std::size_t': 'size_t', 'uintptr_t': 'uint64_t',
    'std::__atomic_base<unsigned long>::__int_type': 'uint64_t',
    'std::memory_order': 'int', 'memory_order': 'int',
    'std::atomic_uint64_t': 'atomic_u64', 'std::atomic<unsigned long>': 'atomic_u64',
    'std::atomic_size_t': 'atomic_u64', 'std::__atomic_base<unsigned long>': 'atomic_u64',
    'std::atomic_bool': 'atomic_b', 'std::atomic<bool>': 'atomic_b',
    'std::vector<double>': 'vec_double', 'std::vector<double, std::allocator<double>>': 'vec_double',
    'std::vector<size_t>': 'vec_size', 'std::vector<unsigned long>': 'vec_size',
    'std::vector<unsigned long, std::allocator<unsigned long>>': 'vec_size',
    'std::array<double, kExactBinNum>': 'arr_double_100', 'std::array<double, 100>': 'arr_double_100',
    'std::array<std::vector<size_t>, kCapacity>': 'arr_vec_size_256',
    'std::array<std::vector<unsigned long>, 256>': 'arr_vec_size_256',
    'std::array<std::vector<unsigned long, std::allocator<unsigned long>>, 256>': 'arr_vec_size_256',
    'std::weak_ptr<size_t>': 'weak_ptr_size', 'std::weak_ptr<unsigned long>': 'weak_ptr_size',
    'std::shared_ptr<size_t>': 'shared_ptr_size', 'std::shared_ptr<unsigned long>': 'shared_ptr_size',
    'std::unique_ptr<MCSLock>': 'unique_ptr_MCSLock',
    'std::unique_ptr<dbgroup::lock::MCSLock>': 'unique_ptr_MCSLock',
    'std::unique_ptr<dbgroup::lock::MCSLock, std::default_delete<dbgroup::lock::MCSLock>>': 'unique_ptr_MCSLock',
    'std::vector<unsigned long>::const_iterator': 'vec_size_iter',
    'std::vector<unsigned long>::iterator': 'vec_size_iter',
    '__gnu_cxx::__normal_iterator<const unsigned long *, std::vector<unsigned long>>': 'vec_size_iter',
    '__gnu_cxx::__normal_iterator<unsigned long *, std::vector<unsigned long>>': 'vec_size_iter',
    '__gnu_cxx::__normal_iterator<const unsigned long *, std::vector<unsigned long, std::allocator<unsigned long>>>': 'vec_size_iter',
    '__gnu_cxx::__normal_iterator<unsigned long *, std::vector<unsigned long, std::allocator<unsigned long>>>': 'vec_size_iter',
    'std::uniform_real_distribution<double>': 'uniform_real_dist',
    'std::uniform_real_distribution<>': 'uniform_real_dist',
    'std::greater<size_t>': 'std_greater_size', 'std::greater<unsigned long>': 'std_greater_size',
    'std::chrono::microseconds': 'chrono_us', 'const std::chrono::microseconds': 'chrono_us',
    'std::thread::id': 'thread_id', 'std::hash<std::thread::id>': 'hash_thread_id',
    'std::pair<dbgroup::thread::EpochGuard, const std::vector<unsigned long> &>': 'pair_EpochGuard_vecref',
    'std::pair<EpochGuard, const std::vector<size_t> &>': 'pair_EpochGuard_vecref',
    'std::pair<dbgroup::thread::EpochGuard, const std::vector<unsigned long, std::allocator<unsigned long>> &>': 'pair_EpochGuard_vecref',
    'std::mt19937_64': 'rand_engine', 'RandEngine': 'rand_engine',
    'std::mersenne_twister_engine<unsigned long, 64, 312, 156, 31, 13043109905998158313, 29, 6148914691236517205, 17, 8202884508482404352, 37, 18444473444759240704, 43, 6364136223846793005>': 'rand_engine',
}

TEMPLATE_ARG_SUFFIX = {'unsigned int': 'u32', 'unsigned long': 'u64', 'int': 'i32', 'long': 'i64',
                       'uint32_t': 'u32', 'uint64_t': 'u64', 'int32_t': 'i32', 'int64_t': 'i64'}


def strip_cv(t):
    t = t.strip()
    changed = True
    while changed:
        changed = False
        for q in ('const ', 'volatile ', 'struct ', 'class '):
            if t.startswith(q):
                t = t[len(q):].strip()
                changed = True
        for q in (' const', ' volatile'):
            if t.endswith(q):
                t = t[:-len(q)].strip()
                changed = True
        for q in ('*const', '*volatile', '&const'):
            if t.endswith(q):   # `T *const p`: a const pointer object
                t = t[:-len(q) + 1].strip()
                changed = True
    return t


class Types:
    """maps C++ type spellings to C; knows the dbgroup records of this TU."""

    def __init__(self):
        self.records = {}     # qualified C++ name -> C struct name
        self.aliases = {}     # `using X = T;` inside dbgroup
        self.local_alias = {}  # substituted template parameter spellings (IntType -> int32_t ...)

    def add_record(self, qual, cname):
        self.records[qual] = cname

    def c(self, qt, node=None):
        t = strip_cv(qt)
        if t.endswith('&&'):
            return self.c(t[:-2], node) + ' *'
        if t.endswith('&'):
            return self.c(t[:-1], node) + ' *'
        if t.endswith('*'):
            return self.c(t[:-1], node) + ' *'
        t = strip_cv(t)
        if t in self.local_alias:
            return self.local_alias[t]
        if t in BUILTIN:
            return BUILTIN[t]
        if t in self.records:
            return self.records[t]
        # unqualified / partially qualified record names
        for q, cn in self.records.items():
            if q.endswith('::' + t) or q == t:
                return cn
        last = t.split('::')[-1]
        if last in self.aliases and self.aliases[last] != t and '<' not in t:
            return self.c(self.aliases[last], node)
        for pre in ('dbgroup::lock::', 'dbgroup::thread::', 'dbgroup::random::', 'dbgroup::thread::component::', 'component::'):
            if t.startswith(pre):
                return self.c(t[len(pre):], node)
        die('unmapped type "%s"' % qt, node)

    def is_ref(self, qt):
        return strip_cv(qt).endswith('&')


# ----------------------------------------------------------------------------
# library callee tables (closed)
# ----------------------------------------------------------------------------

# (C object type, method) -> (stub, set of by-reference argument indexes)
LIB_METHODS = {
    ('atomic_u64', 'load'): ('atomic_u64_load', ()),
    ('atomic_u64', 'store'): ('atomic_u64_store', ()),
    ('atomic_u64', 'exchange'): ('atomic_u64_exchange', ()),
    ('atomic_u64', 'compare_exchange_weak'): ('atomic_u64_compare_exchange_weak', (0,)),
    ('atomic_u64', 'compare_exchange_strong'): ('atomic_u64_compare_exchange_strong', (0,)),
    ('atomic_u64', 'fetch_add'): ('atomic_u64_fetch_add', ()),
    ('atomic_u64', 'fetch_sub'): ('atomic_u64_fetch_sub', ()),
    ('atomic_u64', 'fetch_xor'): ('atomic_u64_fetch_xor', ()),
    ('atomic_u64', 'fetch_or'): ('atomic_u64_fetch_or', ()),
    ('atomic_u64', 'fetch_and'): ('atomic_u64_fetch_and', ()),
    ('atomic_b', 'load'): ('atomic_b_load', ()),
    ('atomic_b', 'store'): ('atomic_b_store', ()),
    ('atomic_b', 'exchange'): ('atomic_b_exchange', ()),
    ('vec_double', 'size'): ('vec_double_size', ()),
    ('vec_double', 'at'): ('*vec_double_at', ()),
    ('vec_double', 'reserve'): ('vec_double_reserve', ()),
    ('vec_double', 'emplace_back'): ('vec_double_emplace_back', ()),
    ('vec_double', 'push_back'): ('vec_double_emplace_back', ()),
    ('vec_double', 'empty'): ('vec_double_empty', ()),
    ('vec_double', 'back'): ('*vec_double_back', ()),
    ('vec_double', 'front'): ('*vec_double_front', ()),
    ('arr_double_100', 'at'): ('*arr_double_100_at', ()),
    ('arr_vec_size_256', 'at'): ('*arr_vec_size_256_at', ()),
    ('vec_size', 'size'): ('vec_size_size', ()),
    ('vec_size', 'empty'): ('vec_size_empty', ()),
    ('vec_size', 'clear'): ('vec_size_clear', ()),
    ('vec_size', 'front'): ('*vec_size_front', ()),
    ('vec_size', 'at'): ('*vec_size_at', ()),
    ('vec_size', 'push_back'): ('vec_size_emplace_back', ()),
    ('vec_double', 'empty'): ('vec_double_empty', ()),
    ('vec_double', 'push_back'): ('vec_double_emplace_back', ()),
    ('vec_double', 'back'): ('*vec_double_back', ()),
    ('vec_double', 'front'): ('*vec_double_front', ()),
    ('vec_size', 'reserve'): ('vec_size_reserve', ()),
    ('vec_size', 'emplace_back'): ('vec_size_emplace_back', ()),
    ('vec_size', 'back'): ('*vec_size_back', ()),
    ('vec_size', 'begin'): ('vec_size_begin', ()),
    ('vec_size', 'end'): ('vec_size_end', ()),
    ('vec_size', 'cbegin'): ('vec_size_begin', ()),
    ('vec_size', 'cend'): ('vec_size_end', ()),
    ('vec_size', 'erase'): ('vec_size_erase', ()),
    ('weak_ptr_size', 'expired'): ('weak_ptr_size_expired', ()),
    ('weak_ptr_size', 'lock'): ('weak_ptr_size_lock', ()),
    ('shared_ptr_size', 'operator bool'): ('shared_ptr_size_bool', ()),
    ('shared_ptr_size', 'use_count'): ('shared_ptr_size_use_count', ()),
    ('shared_ptr_size', 'reset'): ('shared_ptr_size_reset', ()),
    ('unique_ptr_MCSLock', 'release'): ('unique_ptr_MCSLock_release', ()),
    ('unique_ptr_MCSLock', 'reset'): ('unique_ptr_MCSLock_reset', ()),
}

# free library functions, keyed by name -> stub
LIB_FUNCS = {
    'atomic_thread_fence': 'atomic_thread_fence_stub',
    '_mm_pause': 'verif_spin_hint',
    'sleep_for': 'verif_sleep_for',
    'pow': 'verif_pow',
    'log': 'verif_log',
    'fabs': 'verif_fabs',
    'get_id': 'verif_this_thread_get_id',
    'sort': 'vec_size_sort_desc',
    'unique': 'vec_size_unique',
    'make_shared': 'make_shared_size',
}

OPNAMES = {'operator=': 'operator_assign', 'operator bool': 'operator_bool', 'operator()': 'call'}


def cident(s):
    return re.sub(r'[^A-Za-z0-9_]', '_', s)


# ----------------------------------------------------------------------------
# translation unit
# ----------------------------------------------------------------------------

class Func:
    def __init__(self, node, cname, cls, kind):
        self.node, self.cname, self.cls, self.kind = node, cname, cls, kind
        self.lambdas = []


class TU:
    def __init__(self, src, incs, defs, symbolic=(), extra_flags=()):
        self.src = src
        self.symbolic = set(symbolic)   # names of constants kept symbolic
        # a symbolic constant may be given as NAME=VALUE: VALUE is the distinctive number the build-time macro was set to,
        # so that array bounds clang already evaluated ([VALUE]) are recognised as that symbolic constant
        self.symbolic_values = {}
        for sname in list(self.symbolic):
            if '=' in sname:
                nm, val = sname.split('=', 1)
                self.symbolic.discard(sname)
                self.symbolic.add(nm)
                self.symbolic_values[val] = nm
        self.docs = clang_dump(src, 'dbgroup', incs, defs, extra_flags)
        self.anon = clang_dump(src, '(anonymous namespace)', incs, defs, extra_flags)
        self.types = Types()
        self.by_id = {}
        self.parent = {}
        self.funcs = {}        # decl id -> Func
        self.extern_funcs = {}  # declared in dbgroup, defined in another TU
        self.func_order = []
        self.records = []      # (cname, node)
        self.consts = {}       # name -> (ctype, init node)
        self.const_by_id = {}
        self.const_digest = {}
        self.globals = {}      # id -> cname
        self.global_decls = []
        self.lambda_names = {}  # lambda CXXRecordDecl type spelling -> C function name
        self.static_facts = []
        self.stats = {}
        self.out = []
        self._index()

    # -- indexing -------------------------------------------------------------
    def _walk(self, n, parent, fn):
        if not isinstance(n, dict):
            return
        fn(n, parent)
        for c in n.get('inner', []) or []:
            self._walk(c, n, fn)

    def _index(self):
        def reg(n, p):
            if 'id' in n:
                # keep the defining occurrence (the one with a body) when ids repeat
                if n['id'] not in self.by_id or 'inner' in n:
                    self.by_id[n['id']] = n
                self.parent[id(n)] = p
            if n.get('kind') == 'LabelStmt':
                self.labels[n['declId']] = n['name']
            if n.get('kind') == 'TypeAliasDecl' and n.get('name') and 'type' in n:
                self.types.aliases[n['name']] = n['type'].get('qualType')
        self.labels = {}
        self.anon_funcs = {}
        for d in self.docs + self.anon:
            self._walk(d, None, reg)
        seen_doc_ids = set()
        # anonymous-namespace constants of the TU's main file
        for d in self.anon:
            if d.get('kind') == 'VarDecl' and d.get('constexpr'):
                self._reg_const(d)
        for d in self.docs:
            if d.get('id') in seen_doc_ids:
                continue
            seen_doc_ids.add(d.get('id'))
            self._collect(d, [])
        for d in self.anon:
            if d.get('kind') == 'FunctionDecl' and self._has_body(d):
                # file-local helper function in the anonymous namespace of the TU: a free function of the component.
                # The two AST dumps come from two clang runs, so calls are resolved by NAME (overloads are refused).
                # An anonymous namespace nested in dbgroup:: shows up in both dumps: it is already collected then.
                if any(f.cname == cident(d['name']) and f.cls is None for f in self.func_order):
                    continue
                if d['name'] in self.anon_funcs:
                    die('overloaded file-local function %s' % d['name'], d)
                self._collect_func(d, [])
                self.anon_funcs[d['name']] = d['id']

    @staticmethod
    def _digest(n):
        # structural digest of an initialiser: ids, source positions and implicit flags removed
        if isinstance(n, dict):
            return tuple(sorted((k, TU._digest(v)) for k, v in n.items()
                                if k not in ('id', 'loc', 'range', 'isUsed', 'isReferenced', 'previousDecl') and not k.endswith('Id')))
        if isinstance(n, list):
            return tuple(TU._digest(x) for x in n)
        return n

    def _reg_const(self, d):
        name = d['name']
        init = [c for c in d.get('inner', []) if c.get('kind', '').endswith(('Expr', 'Literal', 'Operator'))]
        dig = (d['type']['qualType'].replace('const ', '').strip(), self._digest(init[0]) if init else None)
        if name in self.consts:
            # constants are referenced by NAME in the C text: a second declaration of the same name in another scope
            # (a header constant hiding a TU-local one, ...) would be resolved differently by the C++ compiler
            if self.const_digest.get(name) != dig:
                raise ExtractError('two different constants named %s are visible (C++ name lookup is scope-aware, '
                                   'the extracted C text is not)' % name)
            return
        self.const_digest[name] = dig
        self.consts[name] = (d['type']['qualType'], init[0] if init else None)
        self.const_by_id[d['id']] = name

    def _scope_name(self, scope):
        return '_'.join(scope)

    def _collect(self, n, scope, tmpl_suffix=None):
        k = n.get('kind')
        if k == 'NamespaceDecl':
            if n.get('name') is None:
                # anonymous namespace inside dbgroup (id_manager.cpp): variables become globals
                for c in n.get('inner', []):
                    self._collect(c, scope)
                return
            for c in n.get('inner', []):
                self._collect(c, scope)
        elif k in ('CXXRecordDecl', 'ClassTemplateSpecializationDecl'):
            if not n.get('completeDefinition') and 'inner' not in n:
                return
            if n.get('isImplicit'):
                return
            name = n.get('name')
            if name is None:
                return
            if not n.get('completeDefinition'):
                return
            suffix = ''
            if k == 'ClassTemplateSpecializationDecl':
                targs = [c for c in n.get('inner', []) if c.get('kind') == 'TemplateArgument']
                if not targs:
                    return
                t = targs[0].get('type', {}).get('qualType')
                if t not in TEMPLATE_ARG_SUFFIX:
                    die('unknown template argument %s' % t, n)
                suffix = '_' + TEMPLATE_ARG_SUFFIX[t]
            cname = self._scope_name(scope + [name + suffix])
            qual = self._qual(n, name, k, suffix)
            self.types.add_record(qual, cname)
            if k == 'ClassTemplateSpecializationDecl':
                alt = {'unsigned int': 'uint32_t', 'unsigned long': 'uint64_t', 'int': 'int32_t', 'long': 'int64_t'}
                for a, b in alt.items():
                    if qual.endswith('<%s>' % a):
                        self.types.add_record(qual[:-len(a) - 2] + '<%s>' % b, cname)
                        if a == 'unsigned long':
                            self.types.add_record(qual[:-len(a) - 2] + '<>', cname)   # default template argument size_t
            n['_cname'] = cname
            n['_targ'] = suffix
            self.records.append((cname, n))
            for c in n.get('inner', []):
                self._collect(c, scope + [name + suffix])
        elif k == 'ClassTemplateDecl':
            for c in n.get('inner', []):
                if c.get('kind') == 'ClassTemplateSpecializationDecl':
                    self._collect(c, scope)
        elif k == 'FunctionTemplateDecl':
            for c in n.get('inner', []):
                if c.get('kind') in ('FunctionDecl', 'CXXMethodDecl') and any(
                        x.get('kind') == 'TemplateArgument' for x in c.get('inner', [])):
                    self._collect_func(c, scope, spec=True)
        elif k in ('FunctionDecl', 'CXXMethodDecl', 'CXXConstructorDecl', 'CXXDestructorDecl', 'CXXConversionDecl'):
            self._collect_func(n, scope)
        elif k == 'VarDecl':
            if n.get('constexpr') or 'const ' in n['type']['qualType'] and scope == []:
                self._reg_const(n)
            else:
                self._reg_global(n, scope)

    def _qual(self, n, name, kind, suffix):
        # reconstruct the qualified C++ spelling clang uses in type strings
        chain = [name]
        p = self.parent.get(id(n))
        while p is not None:
            if p.get('kind') in ('NamespaceDecl', 'CXXRecordDecl', 'ClassTemplateSpecializationDecl') and p.get('name'):
                nm = p['name']
                if p.get('kind') == 'ClassTemplateSpecializationDecl':
                    nm = nm + self._targ_spelling(p)
                chain.append(nm)
            p = self.parent.get(id(p))
        q = '::'.join(reversed(chain))
        if kind == 'ClassTemplateSpecializationDecl':
            q += self._targ_spelling(n)
        return q

    def _targ_spelling(self, n):
        targs = [c for c in n.get('inner', []) if c.get('kind') == 'TemplateArgument']
        return '<' + ', '.join(t.get('type', {}).get('qualType', '?') for t in targs) + '>'

    def _reg_global(self, n, scope):
        cname = self._scope_name(scope + [n['name']])
        self.globals[n['id']] = cname
        self.global_decls.append((cname, n))

    def _has_body(self, n):
        return any(c.get('kind') == 'CompoundStmt' for c in n.get('inner', []))

    def _collect_func(self, n, scope, spec=False):
        if n.get('isImplicit') and not n.get('explicitlyDefaulted'):
            pass
        k = n.get('kind')
        name = n.get('name', '')
        if n.get('explicitlyDeleted'):
            self.deleted = getattr(self, 'deleted', [])
            self.deleted.append('%s::%s %s' % ('_'.join(scope), name, n.get('type', {}).get('qualType', '')))
            return
        if n.get('explicitlyDefaulted') == 'default' or n.get('isImplicit'):
            # defaulted special member: recorded as a static fact, emitted member-wise on demand
            if k in ('CXXConstructorDecl', 'CXXMethodDecl', 'CXXDestructorDecl') and scope:
                self.static_facts.append('defaulted: %s::%s %s' % ('::'.join(scope), name, n['type']['qualType']))
                if k == 'CXXConstructorDecl' and not n.get('isImplicit'):
                    n['_defaulted_ctor'] = True
                else:
                    return
            else:
                return
        if not self._has_body(n) and not n.get('_defaulted_ctor'):
            # declaration only: a definition in this TU refers back to it via previousDecl and replaces this entry;
            # otherwise the function lives in another TU and is emitted as a bodiless declaration that must be
            # replaced by its contract
            if k in ('CXXMethodDecl', 'FunctionDecl') and scope and n['id'] not in self.funcs and not n.get('isImplicit'):
                kind = 'static' if n.get('storageClass') == 'static' else ('method' if k == 'CXXMethodDecl' else 'free')
                self.extern_funcs[n['id']] = Func(n, self._scope_name(scope + [cident(OPNAMES.get(name, name))]), self._scope_name(scope), kind)
            return
        if 'previousDecl' in n and n['previousDecl'] in self.by_id:
            # out-of-line definition: the class scope is that of the in-class declaration
            q = self.by_id[n['previousDecl']]
            chain = []
            p = self.parent.get(id(q))
            while p is not None:
                if p.get('kind') == 'CXXRecordDecl' and (self.parent.get(id(p)) or {}).get('kind') == 'ClassTemplateDecl':
                    return   # member of an uninstantiated class template pattern: only instantiations are extracted
                if p.get('kind') in ('CXXRecordDecl', 'ClassTemplateSpecializationDecl') and p.get('name'):
                    chain.append(p['name'] + p.get('_targ', ''))
                p = self.parent.get(id(p))
            if chain:
                scope = list(reversed(chain))
        cls = self._scope_name(scope) if scope else None
        params = [c for c in n.get('inner', []) if c.get('kind') == 'ParmVarDecl']
        if k == 'CXXConstructorDecl':
            kind = 'ctor'
            if len(params) == 1 and strip_cv(params[0]['type']['qualType']).endswith('&&'):
                base = 'ctor_move'
            elif len(params) == 1 and strip_cv(params[0]['type']['qualType']).endswith('&') and scope and scope[-1].split('_')[0] in params[0]['type']['qualType']:
                base = 'ctor_copy'
            else:
                base = 'ctor%d' % len(params)
        elif k == 'CXXDestructorDecl':
            kind, base = 'dtor', 'dtor'
        elif k == 'CXXConversionDecl':
            kind, base = 'method', cident(OPNAMES.get(name, name))
        elif k == 'CXXMethodDecl':
            decl = self.by_id.get(n.get('previousDecl'), {}) if 'previousDecl' in n else {}
            kind = 'static' if (n.get('storageClass') == 'static' or decl.get('storageClass') == 'static') else 'method'
            base = cident(OPNAMES.get(name, name))
        else:
            kind, base = 'free', cident(name)
        cname = self._scope_name(scope + [base])
        if spec:
            # template specialisation: SpinWithBackoff<lambda,...> is named after its lambda later;
            # member templates (operator()<Engine>) keep the plain name
            n['_spec'] = True
        f = Func(n, cname, cls, kind)
        # a definition outside the class refers to the in-class declaration via previousDecl
        self.funcs[n['id']] = f
        if 'previousDecl' in n:
            self.funcs[n['previousDecl']] = f
        self.func_order.append(f)


# ----------------------------------------------------------------------------
# emission
# ----------------------------------------------------------------------------

class Emitter:
    def __init__(self, tu):
        self.tu = tu
        self.T = tu.types
        self.lines = []
        self.lambda_funcs = {}   # lambda operator() decl id -> cname
        self.cur = None
        self.names = {}          # decl id -> C identifier in current function
        self.used_names = set()
        self.refvars = set()     # ids of locals/params that are pointers standing for references
        self.loop_no = 0
        self.tmp_no = 0
        self.func_stats = {}
        self.emitted = []        # (cname, signature)
        self.pending_lambdas = []
        self.used_extern = []
        self.ret_ref = False
        self.self_value = None
        self.temp_ctx = None

    # ---- helpers -------------------------------------------------------------
    def w(self, s, ind=0):
        self.lines.append('  ' * ind + s)

    def stat(self, key):
        d = self.func_stats.setdefault(self.cur.cname, {'atomic': 0, 'loops': 0, 'returns': 0, 'calls': 0})
        d[key] += 1

    def ctype(self, node):
        t = node['type']
        q = t.get('qualType')
        try:
            return self.T.c(q, node)
        except ExtractError:
            if 'desugaredQualType' in t:
                return self.T.c(t['desugaredQualType'], node)
            raise

    def qt(self, node):
        return node['type'].get('qualType', '')

    def fresh(self, base):
        name = base
        i = 0
        while name in self.used_names:
            i += 1
            name = '%s_%d' % (base, i)
        self.used_names.add(name)
        return name

    # ---- constants -----------------------------------------------------------
    def emit_consts(self):
        done = set()
        order = []

        def visit(name):
            if name in done:
                return
            done.add(name)
            qt, init = self.tu.consts[name]
            if init is not None:
                refs = []
                self.tu._walk(init, None, lambda n, p: refs.append(n['referencedDecl']['name'])
                              if n.get('kind') == 'DeclRefExpr' and n.get('referencedDecl', {}).get('name') in self.tu.consts else None)
                for r in refs:
                    visit(r)
            order.append(name)
        for name in list(self.tu.consts):
            visit(name)
        for name in order:
            qt, init = self.tu.consts[name]
            try:
                ct = self.T.c(qt)
            except ExtractError:
                continue   # constants of library types that the bodies never use by value (checked at use)
            if 'memory_order' in qt:
                continue   # resolved to VERIF_MEMORY_ORDER_* from the initialiser at the use sites
            if name in self.tu.symbolic:
                self.w('extern const %s %s; /* symbolic build-time constant */' % (ct, name))
                continue
            if ct == 'chrono_us':
                self.w('static const chrono_us %s = 0; /* duration value not modelled */' % name)
                continue
            if init is None:
                continue
            self.cur = Func({'name': '<const>'}, '<const %s>' % name, None, 'const')
            self.names, self.used_names, self.refvars = {}, set(), set()
            val = self.expr(init)
            self.w('#define %s ((%s)(%s))' % (name, ct, val))

    # ---- records -------------------------------------------------------------
    def emit_records(self):
        # forward declarations first (pointer members to later records)
        for cname, n in self.tu.records:
            self.w('typedef struct %s %s;' % (cname, cname))
        for cname, n in self.tu.records:
            fields = []
            for c in n.get('inner', []):
                if c.get('kind') == 'FieldDecl':
                    qt = c['type']['qualType']
                    m = re.match(r'^(.*)\[(\w+)\]$', qt)
                    if m:
                        bound = self.tu.symbolic_values.get(m.group(2), m.group(2))
                        if bound in self.tu.symbolic:
                            fields.append('  %s *%s; /* array[%s], symbolic bound */' % (self.T.c(m.group(1), c), c['name'], bound))
                        else:
                            fields.append('  %s %s[%s];' % (self.T.c(m.group(1), c), c['name'], bound))
                    else:
                        fields.append('  %s %s;' % (self.ctype(c), c['name']))
                elif c.get('kind') == 'VarDecl' and c.get('storageClass') == 'static' and not c.get('constexpr'):
                    # static data member (MCSLock::tls_node_) -> global of the current thread
                    gname = cname + '_' + c['name']
                    self.tu.globals[c['id']] = gname
                    self.tu.global_decls.append((gname, c))
                elif c.get('kind') == 'VarDecl' and c.get('constexpr'):
                    self.tu._reg_const(c)
            self.tu_fields = getattr(self, 'tu_fields', {})
            self.tu_fields[cname] = fields
        # order records so that by-value members come first
        emitted = set()

        def emit(cname):
            if cname in emitted:
                return
            emitted.add(cname)
            for f in self.tu_fields[cname]:
                m = re.match(r'^\s*(\w+) \w+(\[\w+\])?;', f)
                if m and m.group(1) in self.tu_fields and m.group(1) != cname:
                    emit(m.group(1))
            self.rec_lines.append('struct %s {' % cname)
            self.rec_lines.extend(self.tu_fields[cname] or ['  char _empty;'])
            self.rec_lines.append('};')
        self.rec_lines = []
        for cname, n in self.tu.records:
            emit(cname)

    # ---- functions -----------------------------------------------------------
    def func_sig(self, f):
        n = f.node
        params = [c for c in n.get('inner', []) if c.get('kind') == 'ParmVarDecl']
        rt = n['type']['qualType']
        # return type: text between '->' or before '('
        if '->' in rt:
            ret = rt.split('->')[-1].strip()
        else:
            ret = rt[:rt.index('(')].strip()
        if f.kind == 'ctor':
            cret = f.cls
        elif f.kind == 'dtor':
            cret = 'void'
        else:
            self.T.local_alias = self.aliases_for(f)
            cret = self.T.c(ret, n)
        return cret, params, self.T.is_ref(ret)

    def aliases_for(self, f):
        al = {}
        if f.cls:
            for suf, ct in (('_u32', 'uint32_t'), ('_u64', 'uint64_t'), ('_i32', 'int32_t'), ('_i64', 'int64_t')):
                if f.cls.endswith(suf) or (suf + '_') in f.cls:
                    al['IntType'] = ct
        return al

    def begin_func(self, f):
        self.cur = f
        self.names, self.used_names, self.refvars = {}, {'this', 'self'}, set()
        self.loop_no = 0
        self.dtor_locals = []
        self.scopes = [[]]      # per C++ block: locals with a modelled destructor, in declaration order
        self.elided = set()
        self.loop_scopes = []   # len(self.scopes) at the entry of each enclosing loop
        self.T.local_alias = self.aliases_for(f)
        self.func_stats[f.cname] = {'atomic': 0, 'loops': 0, 'returns': 0, 'calls': 0}

    def param_decl(self, p, idx, is_lambda_obj=False):
        qt = p['type']['qualType']
        ct = self.ctype(p)
        name = self.fresh(p.get('name') or ('arg%d' % idx))
        self.names[p['id']] = name
        if self.T.is_ref(qt):
            self.refvars.add(p['id'])
        elif not is_lambda_obj and '*' not in ct and self.has_dtor(ct) and self.cur is not None and self._has_own_body():
            die('by-value parameter of class type %s (with a destructor): its destruction at the end of the call is not modelled' % ct, p)
        return '%s %s' % (ct, name)

    def _has_own_body(self):
        return any(c.get('kind') == 'CompoundStmt' for c in self.cur.node.get('inner', []))

    def emit_function(self, f, body_only=False):
        n = f.node
        self.begin_func(f)
        cret, params, retref = self.func_sig(f)
        self.ret_ref = retref
        plist = []
        if f.kind in ('method', 'dtor'):
            plist.append('%s *this' % f.cls)
        skip_first = False
        if n.get('_spin'):
            skip_first = True   # the stateless lambda object parameter 'proc'
        for i, p in enumerate(params):
            if skip_first and i == 0:
                self.names[p['id']] = '/*proc*/'
                continue
            plist.append(self.param_decl(p, i))
        sig = '%s %s(%s)' % (cret, f.cname, ', '.join(plist) if plist else 'void')
        self.emitted.append((f.cname, sig))
        self.w('/*@FUNC %s*/' % f.cname)
        self.w(sig)
        self.w('/*@CONTRACT %s*/' % f.cname)
        self.w('{')
        body = [c for c in n.get('inner', []) if c.get('kind') == 'CompoundStmt']
        if f.kind == 'ctor':
            self.w('%s self;' % f.cls, 1)
            self.self_value = True
            self.emit_ctor_inits(n, f)
            if body:
                self.stmt_list(body[0], 1)
            self.w('return self;', 1)
            self.self_value = None
        else:
            self.self_value = None
            self.dtor_early_return = False
            self.stmt_list(body[0], 1)
            self.leave_scope(1)
            if f.kind == 'dtor':
                if self.dtor_early_return:
                    self.w('verif_member_destruction:;', 1)
                self.emit_member_dtors(f, 1)
        self.w('}')
        self.w('')

    def class_node(self, cname):
        for cn, n in self.tu.records:
            if cn == cname:
                return n
        die('unknown record %s' % cname)

    def emit_ctor_inits(self, n, f):
        cls = self.class_node(f.cls)
        inits = {}
        for c in n.get('inner', []):
            if c.get('kind') == 'CXXCtorInitializer':
                if 'anyInit' in c:
                    inits[c['anyInit']['name']] = c['inner'][0]
                else:
                    die('unsupported ctor initializer', c)
        if n.get('_defaulted_ctor'):
            params = [c for c in n.get('inner', []) if c.get('kind') == 'ParmVarDecl']
            if params:
                # defaulted copy/move constructor: member-wise
                pn = self.names.get(params[0]['id'])
                for c in cls.get('inner', []):
                    if c.get('kind') == 'FieldDecl':
                        self.w('self.%s = %s->%s; /* defaulted member-wise */' % (c['name'], pn, c['name']), 1)
                return
        for c in cls.get('inner', []):
            if c.get('kind') != 'FieldDecl':
                continue
            name = c['name']
            if name in inits and inits[name].get('kind') != 'CXXDefaultInitExpr':
                self.mark_elided(inits[name])
                self.emit_field_init('self.' + name, c, inits[name], 1)
            else:
                default = [x for x in c.get('inner', []) if 'Expr' in x.get('kind', '') or 'Literal' in x.get('kind', '')]
                if default:
                    self.mark_elided(default[0])
                    self.emit_field_init('self.' + name, c, default[0], 1)
                else:
                    self.emit_default_init('self.' + name, c, 1)

    def emit_default_init(self, lhs, fld, ind):
        qt = fld['type']['qualType']
        m = re.match(r'^(.*)\[(\w+)\]$', qt)
        if m:
            ct = self.T.c(m.group(1), fld)
            self.w('%s = verif_new_array_%s(%s); /* value-initialised array member */' % (lhs, ct, self.tu.symbolic_values.get(m.group(2), m.group(2))), ind)
            return
        ct = self.ctype(fld)
        if ct in ('vec_double', 'vec_size', 'weak_ptr_size', 'shared_ptr_size', 'arr_double_100', 'arr_vec_size_256', 'unique_ptr_MCSLock'):
            self.w('%s = %s_default();' % (lhs, ct), ind)
        elif ct in self.tu_fields:
            self.w('%s = %s_ctor0();' % (lhs, ct), ind)
        elif ct.endswith('*') or ct in ('uint64_t', 'uint32_t', 'int64_t', 'int32_t', 'size_t', '_Bool', 'double'):
            # default member initialiser {} => zero
            self.w('%s = 0;' % lhs, ind)
        else:
            die('no default initialisation for type %s' % ct, fld)

    def emit_field_init(self, lhs, fld, init, ind):
        if re.match(r'^(.*)\[(\w+)\]$', fld['type']['qualType']):
            u = self.unwrap(init)
            if u.get('kind') == 'InitListExpr' and not [c for c in u.get('inner', []) if c.get('kind') != 'ImplicitValueInitExpr'] and \
                    ('array_filler' not in u or all(c.get('kind') in ('ImplicitValueInitExpr', 'CXXConstructExpr', 'InitListExpr') for c in u['array_filler'])):
                self.emit_default_init(lhs, fld, ind)
                return
            die('array member with a non-empty initialiser', fld)
        ct = self.ctype(fld)
        init = self.unwrap(init)
        k = init.get('kind')
        if k == 'InitListExpr' and not init.get('inner'):
            self.emit_default_init(lhs, fld, ind)
            return
        if k == 'InitListExpr' and ct.startswith(('arr_', 'vec_')):
            # std::array<...> x{}: nested empty aggregate initialisation (only value-initialising fillers)
            def empty(n):
                if n.get('kind') == 'ImplicitValueInitExpr':
                    return True
                if n.get('kind') == 'CXXConstructExpr' and not n.get('inner'):
                    return True
                if n.get('kind') != 'InitListExpr':
                    return False
                if 'array_filler' in n:
                    return len(n['array_filler']) == 1 and (n['array_filler'][0].get('kind') == 'ImplicitValueInitExpr' or
                                                            (n['array_filler'][0].get('kind') == 'CXXConstructExpr' and not n['array_filler'][0].get('inner')))
                return all(empty(self.unwrap(c)) for c in n.get('inner', []))
            if empty(init):
                self.emit_default_init(lhs, fld, ind)
                return
            die('non-empty initialiser list for %s' % ct, init)
        if k == 'InitListExpr' and len(init['inner']) == 1 and ct not in self.tu_fields and not ct.startswith(('vec_', 'arr_')):
            self.w('%s = %s;' % (lhs, self.expr(init['inner'][0])), ind)
            return
        if ct in ('atomic_u64', 'atomic_b'):
            # std::atomic<T> x{v}
            if k == 'CXXConstructExpr':
                args = init.get('inner', [])
                v = self.expr(args[0]) if args else '0'
            elif k == 'InitListExpr':
                v = self.expr(init['inner'][0]) if init.get('inner') else '0'
            else:
                v = self.expr(init)
            self.w('%s = %s_init(%s);' % (lhs, ct, v), ind)
            return
        if k == 'CXXConstructExpr' and not init.get('inner') and ct in (
                'vec_double', 'vec_size', 'weak_ptr_size', 'shared_ptr_size', 'arr_double_100', 'arr_vec_size_256', 'unique_ptr_MCSLock'):
            self.w('%s = %s_default();' % (lhs, ct), ind)
            return
        self.w('%s = %s;' % (lhs, self.expr(init)), ind)

    TRIVIAL_DTOR = ('atomic_u64', 'atomic_b', 'weak_ptr_size', 'uint64_t', 'uint32_t', 'int64_t', 'int32_t', 'size_t', '_Bool', 'double')

    def trivially_destructible(self, ct):
        """in the model: no effect on ghost state when destroyed"""
        if ct.endswith('*') or ct in self.TRIVIAL_DTOR:
            return True
        if ct in self.tu_fields:
            n = self.class_node(ct)
            if any(c.get('kind') == 'CXXDestructorDecl' and not c.get('isImplicit') and c.get('explicitlyDefaulted') != 'default' for c in n.get('inner', [])):
                return False
            for c in n.get('inner', []):
                if c.get('kind') == 'FieldDecl':
                    m = re.match(r'^(.*)\[(\w+)\]$', c['type']['qualType'])
                    if not self.trivially_destructible(self.T.c(m.group(1), c) if m else self.ctype(c)):
                        return False
            return True
        return False

    def emit_member_dtors(self, f, ind):
        cls = self.class_node(f.cls)
        flds = [c for c in cls.get('inner', []) if c.get('kind') == 'FieldDecl']
        for c in reversed(flds):
            m = re.match(r'^(.*)\[(\w+)\]$', c['type']['qualType'])
            ct = self.T.c(m.group(1), c) if m else self.ctype(c)
            if not m and ct in ('shared_ptr_size', 'vec_double', 'vec_size', 'unique_ptr_MCSLock'):
                self.w('%s_dtor(&this->%s); /* implicit member destruction (reverse declaration order) */' % (ct, c['name']), ind)
            elif self.trivially_destructible(ct):
                continue
            else:
                die('implicit destruction of member %s of type %s not modelled' % (c['name'], ct), c)

    # ---- statements ----------------------------------------------------------
    def stmt_list(self, comp, ind):
        for s in comp.get('inner', []) or []:
            self.stmt(s, ind)

    def block(self, s, ind):
        """emit s as a braced block"""
        self.w('{', ind)
        self.scopes.append([])
        if s.get('kind') == 'CompoundStmt':
            self.stmt_list(s, ind + 1)
        else:
            self.stmt(s, ind + 1)
        self.leave_scope(ind + 1)
        self.w('}', ind)

    def leave_scope(self, ind):
        """locals of the innermost block are destroyed at its end (reverse order of declaration)"""
        for nm, ct in reversed(self.scopes.pop()):
            self.w('%s_dtor(&%s); /* implicit destruction of the local at scope exit */' % (ct, nm), ind)
            self.dtor_locals.remove((nm, ct))

    def destroy_live_locals(self, ind):
        for nm, ct in reversed(self.dtor_locals):
            self.w('%s_dtor(&%s); /* implicit destruction of the local at scope exit */' % (ct, nm), ind)

    def loop_locals(self, *parts):
        """C names of the locals/parameters (declared before the loop) that the loop assigns directly: they belong to the
        loop's assigns clause whatever the contract author wrote (spec.splice adds the missing ones), so that a new local
        counter neither breaks the frame of a loop contract nor hides the loop's exit path"""
        found = []

        def target(e):
            e = self.unwrap(e)
            while e.get('kind') in ('ImplicitCastExpr', 'ParenExpr') and e.get('inner'):
                e = self.unwrap(e['inner'][0])
            if e.get('kind') == 'DeclRefExpr':
                d = e.get('referencedDecl', {})
                if d.get('kind') in ('VarDecl', 'ParmVarDecl') and d.get('id') in self.names and d['id'] not in self.refvars:
                    nm = self.names[d['id']]
                    if re.match(r'^[A-Za-z_]\w*$', nm) and nm not in found and d['id'] not in self.tu.globals:
                        found.append(nm)

        def walk(n):
            if not isinstance(n, dict):
                return
            k = n.get('kind')
            if k in ('BinaryOperator', 'CompoundAssignOperator') and (k == 'CompoundAssignOperator' or n.get('opcode') == '='):
                target(n['inner'][0])
            elif k == 'UnaryOperator' and n.get('opcode') in ('++', '--'):
                target(n['inner'][0])
            elif k == 'LambdaExpr':
                return
            for c in n.get('inner', []) or []:
                walk(c)
        for p in parts:
            if p:
                walk(p)
        return (' locals: ' + ' '.join(found)) if found else ''

    def loop_body(self, body, ind):
        self.loop_scopes.append(len(self.scopes))
        self.block(body, ind)
        self.loop_scopes.pop()

    def check_jump(self, s, ind=0):
        """break/continue leave every block opened inside the loop body: their locals are destroyed first"""
        if not self.loop_scopes:
            return
        for scope in reversed(self.scopes[self.loop_scopes[-1]:]):
            for nm, ct in reversed(scope):
                self.w('%s_dtor(&%s); /* implicit destruction of the local when the jump leaves its block */' % (ct, nm), ind)

    def stmt(self, s, ind):
        k = s.get('kind')
        if k == 'CompoundStmt':
            self.block(s, ind)
        elif k == 'DeclStmt':
            for d in s.get('inner', []):
                self.local_decl(d, ind)
        elif k == 'ReturnStmt' and getattr(self, 'dtor_locals', None) and s.get('inner') and self.cur.kind not in ('ctor', 'dtor'):
            # named locals / lifetime-extended temporaries of class type with a user-provided destructor are destroyed
            # after the return value has been constructed (reverse order of declaration)
            self.stat('returns')
            rt = self.func_sig(self.cur)[0]
            self.mark_elided(s['inner'][0])
            self.w('{', ind)
            self.w('%s verif_ret = %s;' % (rt, self.addr(s['inner'][0]) if self.ret_ref else self.expr(s['inner'][0])), ind + 1)
            self.destroy_live_locals(ind + 1)
            self.w('return verif_ret;', ind + 1)
            self.w('}', ind)
        elif k == 'ReturnStmt':
            self.stat('returns')
            inner = s.get('inner', [])
            if self.cur.kind == 'ctor':
                self.w('return self;', ind)
            elif not inner:
                self.destroy_live_locals(ind)
                if self.cur.kind == 'dtor':
                    # the members are destroyed after the body, also on an early return
                    self.dtor_early_return = True
                    self.w('goto verif_member_destruction;', ind)
                else:
                    self.w('return;', ind)
            else:
                e = inner[0]
                self.mark_elided(e)
                if self.ret_ref:
                    self.w('return %s;' % self.addr(e), ind)
                else:
                    self.w('return %s;' % self.expr(e), ind)
        elif k == 'IfStmt':
            parts = s['inner']
            if s.get('hasInit') or s.get('hasVar'):
                die('if with init/var', s)
            self.w('if (%s)' % self.cond(parts[0]), ind)
            self.block(parts[1], ind)
            if len(parts) > 2:
                self.w('else', ind)
                self.block(parts[2], ind)
        elif k == 'WhileStmt':
            parts = s['inner']
            no = self.loop_no
            self.loop_no += 1
            self.stat('loops')
            self.w('while (%s)' % self.cond(parts[0]), ind)
            self.w('/*@LOOP %s %d%s*/' % (self.cur.cname, no, self.loop_locals(parts[0], parts[-1])), ind)
            self.loop_body(parts[-1], ind)
        elif k == 'DoStmt':
            parts = s['inner']
            no = self.loop_no
            self.loop_no += 1
            self.stat('loops')
            self.w('do', ind)
            # CBMC syntax: the loop contract of a do-while stands between `do` and the body
            self.w('/*@LOOP %s %d%s*/' % (self.cur.cname, no, self.loop_locals(parts[0], parts[1])), ind)
            self.loop_body(parts[0], ind)
            c = self.cond(parts[1])
            self.w('while (%s);' % c, ind)
        elif k == 'ForStmt':
            init, _var, cnd, inc, body = s['inner']
            no = self.loop_no
            self.loop_no += 1
            self.stat('loops')
            self.w('{', ind)
            if init and init.get('kind'):
                self.stmt(init, ind + 1)
            c = self.cond(cnd) if cnd and cnd.get('kind') else '1'
            i = self.expr(inc) if inc and inc.get('kind') else ''
            self.w('for (; %s; %s)' % (c, i), ind + 1)
            self.w('/*@LOOP %s %d%s*/' % (self.cur.cname, no, self.loop_locals(cnd, inc, body)), ind + 1)
            self.loop_body(body, ind + 1)
            self.w('}', ind)
        elif k == 'BreakStmt':
            self.w('{', ind)
            self.check_jump(s, ind + 1)
            self.w('break;', ind + 1)
            self.w('}', ind)
        elif k == 'ContinueStmt':
            self.w('{', ind)
            self.check_jump(s, ind + 1)
            self.w('continue;', ind + 1)
            self.w('}', ind)
        elif k == 'NullStmt':
            self.w(';', ind)
        elif k == 'GotoStmt':
            tgt = self.tu.labels.get(s['targetLabelDeclId'])
            if not tgt:
                die('goto target unknown', s)
            self.w('goto %s;' % tgt, ind)
        elif k == 'LabelStmt':
            self.w('%s:;' % s['name'], ind)
            for c in s.get('inner', []):
                self.stmt(c, ind)
        elif k == 'AttributedStmt':
            for c in s.get('inner', []):
                if 'Attr' not in c.get('kind', ''):
                    self.stmt(c, ind)
        elif self.unwrap(s).get('kind') == 'CXXThrowExpr':
            # throw E{...};  ->  set the flag and leave the function (callers in the extracted set test it)
            self.stat('returns')
            self.w('verif_thrown = 1; /* throw */', ind)
            if self.cur.kind == 'ctor':
                self.w('return self;', ind)
            elif self.cur.kind == 'dtor':
                die('throw inside destructor', s)
            else:
                rt = self.func_sig(self.cur)[0]
                if rt != 'void':
                    die('throw in a function returning %s is not modelled' % rt, s)
                self.w('return;', ind)
        else:
            # expression statement (a full expression: temporaries are destroyed after it)
            self.temp_ctx = {'pre': [], 'post': []}
            text = self.expr_stmt(s)
            ctx, self.temp_ctx = self.temp_ctx, None
            if ctx['pre']:
                self.w('{', ind)
                for l in ctx['pre']:
                    self.w(l, ind + 1)
                self.w(text + ';', ind + 1)
                for l in ctx['post']:
                    self.w(l, ind + 1)
                self.w('}', ind)
            else:
                self.w(text + ';', ind)

    def expr_stmt(self, e):
        # NOT unwrapped: a discarded temporary (`Guard{...};`) must keep its CXXBindTemporaryExpr (destroyed at the `;`)
        return self.expr(e)

    def local_decl(self, d, ind):
        if d.get('kind') != 'VarDecl':
            die('unsupported local declaration', d)
        qt = d['type']['qualType']
        name = self.fresh(d['name'])
        self.names[d['id']] = name
        inits = [c for c in d.get('inner', []) if 'Attr' not in c.get('kind', '')]
        init = inits[0] if inits else None
        if init is not None:
            self.mark_elided(init)
        if d.get('tls') or d.get('storageClass') == 'static':
            # function-local thread_local object -> per-thread ghost global of "me", constructed on first use
            ct = self.ctype(d)
            g = '%s_tls_%s' % (self.cur.cname, d['name'])
            self.names[d['id']] = g
            self.tu.tls_locals = getattr(self.tu, 'tls_locals', [])
            self.tu.tls_locals.append((ct, g))
            self.tu.storage = getattr(self.tu, 'storage', {})
            self.tu.storage[g] = 'thread_local' if d.get('tls') else 'static'
            self.w('/* function-local thread_local %s: per-thread global, constructed on first use */' % d['name'], ind)
            self.w('if (!%s_constructed) { %s = %s; %s_constructed = 1; }' % (g, g, self.expr(init), g), ind)
            return
        if self.T.is_ref(qt):
            u = self.unwrap(init, keep_materialize=True)
            if u.get('kind') == 'MaterializeTemporaryExpr':
                # reference bound to a temporary: lifetime-extended value
                ct = self.T.c(strip_cv(qt).rstrip('&').strip(), d) if 'auto' not in qt else self.ctype(u)
                self.w('%s %s = %s;' % (ct, name, self.expr(u)), ind)
                self.note_dtor_local(name, ct)
                return
            ct = self.ctype(d)
            self.refvars.add(d['id'])
            self.w('%s %s = %s;' % (ct, name, self.addr(init)), ind)
            return
        ct = self.ctype(d)
        if init is None:
            self.w('%s %s;' % (ct, name), ind)
            return
        u = self.unwrap(init)
        if u.get('kind') == 'InitListExpr':
            if not u.get('inner'):
                self.w('%s %s = 0;' % (ct, name), ind)
            elif len(u['inner']) == 1:
                self.w('%s %s = %s;' % (ct, name, self.expr(u['inner'][0])), ind)
            else:
                die('init list local', d)
            return
        self.w('%s %s = %s;' % (ct, name, self.expr(init)), ind)
        self.note_dtor_local(name, ct)

    LIB_DTOR_LOCALS = ('shared_ptr_size',)

    def note_dtor_local(self, name, ct):
        if (ct in getattr(self, 'tu_fields', {}) and any(f.cname == ct + '_dtor' for f in self.tu.func_order)) or ct in self.LIB_DTOR_LOCALS:
            if self.cur.kind == 'ctor':
                die('local of class type %s with a destructor inside a constructor is not modelled' % ct)
            self.dtor_locals.append((name, ct))
            self.scopes[-1].append((name, ct))

    # ---- expressions ---------------------------------------------------------
    def unwrap(self, e, keep_materialize=False):
        while e.get('kind') in ('ExprWithCleanups', 'CXXBindTemporaryExpr', 'ConstantExpr', 'ParenExpr',
                                'SubstNonTypeTemplateParmExpr', 'CXXDefaultInitExpr', 'CXXDefaultArgExpr') or \
                (e.get('kind') == 'MaterializeTemporaryExpr' and not keep_materialize) or \
                (e.get('kind') == 'ImplicitCastExpr' and e.get('castKind') in ('NoOp',)):
            if not e.get('inner'):
                die('empty wrapper', e)
            e = e['inner'][0]
        return e

    def cond(self, e):
        return self.expr(e)

    def addr(self, e):
        """C expression for the address of glvalue e"""
        u = self.unwrap(e, keep_materialize=True)
        if u.get('kind') == 'MaterializeTemporaryExpr' and self.temp_ctx is not None and u.get('inner'):
            inner = self.unwrap(u['inner'][0])
            if inner.get('kind') in ('CallExpr', 'CXXMemberCallExpr', 'CXXOperatorCallExpr'):
                # a member function called on a prvalue (f().g()): the temporary is materialised for the full expression
                ct = self.ctype(u)
                name = self.fresh('verif_tmp')
                self.temp_ctx['pre'].append('%s %s = %s;' % (ct, name, self.expr(inner)))
                if self.has_dtor(ct):
                    self.temp_ctx['post'].insert(0, '%s_dtor(&%s); /* temporary destroyed at the end of the full expression */' % (ct, name))
                return '&' + name
        s = self.expr(e)
        if s.startswith('(*') and s.endswith(')') and self._balanced(s[2:-1]):
            return s[2:-1]
        return '&(%s)' % s

    @staticmethod
    def _balanced(s):
        d = 0
        for ch in s:
            if ch == '(':
                d += 1
            elif ch == ')':
                d -= 1
                if d < 0:
                    return False
        return d == 0

    def expr(self, e):
        k = e.get('kind')
        m = getattr(self, 'x_' + k, None)
        if m is None:
            die('unsupported expression kind %s' % k, e)
        return m(e)

    # wrappers
    def x_ParenExpr(self, e):
        return '(%s)' % self.expr(e['inner'][0])

    def _pass(self, e):
        return self.expr(e['inner'][0])
    x_ExprWithCleanups = _pass

    def has_dtor(self, ct):
        return (ct in getattr(self, 'tu_fields', {}) and any(f.cname == ct + '_dtor' for f in self.tu.func_order)) \
            or ct in self.LIB_DTOR_LOCALS

    def mark_elided(self, e):
        """the temporary that directly initialises a variable or the return value is constructed in place (no
        destruction of its own); every other temporary of a class with a destructor dies with its full expression"""
        while isinstance(e, dict) and e.get('inner') and (
                e.get('kind') in ('ExprWithCleanups', 'ParenExpr', 'ConstantExpr', 'CXXDefaultInitExpr', 'CXXFunctionalCastExpr') or
                (e.get('kind') == 'ImplicitCastExpr' and e.get('castKind') in ('NoOp', 'ConstructorConversion'))):
            e = e['inner'][0]
        if not isinstance(e, dict):
            return
        if e.get('kind') == 'CXXBindTemporaryExpr':
            self.elided.add(id(e))
            self.mark_elided(e['inner'][0]) if e.get('inner') else None
        elif e.get('kind') == 'ConditionalOperator':
            for arm in e.get('inner', [])[1:]:
                self.mark_elided(arm)
        elif e.get('kind') == 'CXXConstructExpr' and e.get('elidable') and e.get('inner'):
            self.mark_elided(e['inner'][0])
        elif e.get('kind') == 'MaterializeTemporaryExpr' and e.get('inner'):
            self.mark_elided(e['inner'][0])

    def x_CXXBindTemporaryExpr(self, e):
        # a temporary of a class type with a non-trivial destructor that is NOT elided into a variable / return value:
        # it lives until the end of the full expression, then it is destroyed
        ct = self.ctype(e)
        if self.has_dtor(ct) and id(e) not in self.elided:
            if self.temp_ctx is None:
                die('temporary of class type %s (with a destructor) outside an expression statement is not modelled' % ct, e)
            name = self.fresh('verif_tmp')
            self.temp_ctx['pre'].append('%s %s = %s;' % (ct, name, self.expr(e['inner'][0])))
            self.temp_ctx['post'].insert(0, '%s_dtor(&%s); /* temporary destroyed at the end of the full expression */' % (ct, name))
            return name
        return self.expr(e['inner'][0])
    x_MaterializeTemporaryExpr = _pass
    x_ConstantExpr = _pass
    x_SubstNonTypeTemplateParmExpr = _pass
    x_CXXDefaultInitExpr = _pass

    def x_IntegerLiteral(self, e):
        ct = self.ctype(e)
        suf = {'uint64_t': 'UL', 'size_t': 'UL', 'int64_t': 'L', 'uint32_t': 'U', 'int32_t': ''}.get(ct)
        if suf is None:
            die('integer literal of type %s' % ct, e)
        return e['value'] + suf

    def x_FloatingLiteral(self, e):
        v = e['value']
        if not re.match(r'^-?[0-9.]+(e[-+]?[0-9]+)?$', v):
            die('floating literal %s' % v, e)
        if '.' not in v and 'e' not in v:
            v += '.0'
        return v

    def x_CXXBoolLiteralExpr(self, e):
        return '1' if e['value'] else '0'

    def x_CXXNullPtrLiteralExpr(self, e):
        return '0'

    def x_GNUNullExpr(self, e):
        return '0'

    def x_CXXThisExpr(self, e):
        return '(&self)' if self.self_value else 'this'

    def x_ImplicitValueInitExpr(self, e):
        return '0'

    def x_CXXScalarValueInitExpr(self, e):
        return '0'

    def x_DeclRefExpr(self, e):
        r = e['referencedDecl']
        rid, rk, rn = r['id'], r['kind'], r.get('name')
        if rid in self.names:
            n = self.names[rid]
            if rid in self.refvars:
                return '(*%s)' % n
            return n
        if rk == 'EnumConstantDecl':
            if rn.startswith('memory_order_'):
                return 'VERIF_' + rn.upper()
            die('enum constant %s' % rn, e)
        if rk == 'VarDecl':
            if rn and rn.startswith('memory_order_'):
                return 'VERIF_' + rn.upper()
            if rid in self.tu.globals:
                return self.tu.globals[rid]
            if rn in self.tu.consts:
                qt, init = self.tu.consts[rn]
                if 'memory_order' in qt:
                    # an alias of a std::memory_order value: resolved from its INITIALISER (never from its name)
                    found = []

                    def walk(n):
                        if isinstance(n, dict):
                            d = n.get('referencedDecl', {})
                            if n.get('kind') == 'DeclRefExpr' and str(d.get('name', '')).startswith('memory_order_'):
                                found.append(d['name'])
                            for c in n.get('inner', []) or []:
                                walk(c)
                    walk(init)
                    if len(found) != 1:
                        die('memory-order constant %s: initialiser is not a single std::memory_order_* value' % rn, e)
                    return 'VERIF_' + found[0].upper()
                return rn
            die('reference to unknown variable %s' % rn, e)
        if rk in ('FunctionDecl', 'CXXMethodDecl'):
            if rid in self.tu.funcs:
                return self.tu.funcs[rid].cname
            if rid in self.lambda_funcs:
                return self.lambda_funcs[rid]
            if rn in LIB_FUNCS:
                return LIB_FUNCS[rn]
            die('reference to unknown function %s' % rn, e)
        die('unsupported DeclRefExpr to %s' % rk, e)

    def x_MemberExpr(self, e):
        base = e['inner'][0]
        mid = e.get('referencedMemberDecl')
        name = e['name']
        # static data member accessed through an object
        if mid in self.tu.globals:
            return self.tu.globals[mid]
        if e.get('isArrow'):
            b = self.expr(base)
            if b == '(&self)':
                return 'self.%s' % name
            return '%s->%s' % (b, name)
        b = self.expr(base)
        if b.startswith('(*') and b.endswith(')') and self._balanced(b[2:-1]) and re.match(r'^\w+$', b[2:-1]):
            return '%s->%s' % (b[2:-1], name)
        return '%s.%s' % (b, name)

    def x_ArraySubscriptExpr(self, e):
        a, i = e['inner']
        arr = self.expr(a)
        self.note_symbolic_array(a)
        return '%s[%s]' % (arr, self.expr(i))

    def note_symbolic_array(self, a):
        pass

    CASTS_NOOP = {'LValueToRValue', 'NoOp', 'FunctionToPointerDecay', 'UncheckedDerivedToBase', 'DerivedToBase',
                  'ArrayToPointerDecay', 'ConstructorConversion', 'UserDefinedConversion'}

    def x_ImplicitCastExpr(self, e):
        ck = e['castKind']
        inner = e['inner'][0]
        if ck in self.CASTS_NOOP:
            return self.expr(inner)
        if ck in ('IntegralCast', 'IntegralToFloating', 'FloatingToIntegral', 'FloatingCast', 'BooleanToSignedIntegral'):
            return '((%s)%s)' % (self.ctype(e), self.paren(inner))
        if ck in ('IntegralToBoolean', 'PointerToBoolean', 'FloatingToBoolean'):
            return '(%s != 0)' % self.paren(inner)
        if ck == 'NullToPointer':
            return '((%s)0)' % self.ctype(e)
        if ck == 'BitCast':
            return '((%s)%s)' % (self.ctype(e), self.paren(inner))
        die('unsupported cast kind %s' % ck, e)

    def paren(self, e):
        s = self.expr(e)
        if re.match(r'^[\w.>-]+$', s) or (s.startswith('(') and s.endswith(')') and self._balanced(s[1:-1])):
            return s
        return '(%s)' % s

    def _explicit_cast(self, e):
        ck = e.get('castKind')
        inner = e['inner'][0]
        if ck in ('NoOp', 'LValueToRValue'):
            return self.expr(inner)
        if ck == 'ConstructorConversion':
            return self.expr(inner)
        if ck in ('IntegralCast', 'IntegralToFloating', 'FloatingToIntegral', 'FloatingCast', 'BitCast'):
            return '((%s)%s)' % (self.ctype(e), self.paren(inner))
        if ck in ('IntegralToBoolean', 'PointerToBoolean'):
            return '(%s != 0)' % self.paren(inner)
        die('unsupported explicit cast kind %s' % ck, e)
    x_CXXStaticCastExpr = _explicit_cast
    x_CStyleCastExpr = _explicit_cast
    x_CXXFunctionalCastExpr = _explicit_cast

    BINOPS = {'+', '-', '*', '/', '%', '&', '|', '^', '<<', '>>', '&&', '||', '==', '!=', '<', '>', '<=', '>=', '=', ','}

    def x_BinaryOperator(self, e):
        op = e['opcode']
        if op not in self.BINOPS:
            die('binary operator %s' % op, e)
        a, b = e['inner']
        if op in ('/', '%') and self.ctype(e) not in ('double',):
            ub = self.unwrap(b)
            # division/modulo by a symbolic (non-literal) divisor: mapped to a stub with a range contract
            if not self.is_const_expr(ub):
                ct = self.ctype(e)
                fn = {'/': 'verif_div_', '%': 'verif_mod_'}[op] + ct
                return '%s(%s, %s)' % (fn, self.expr(a), self.expr(b))
        return '%s %s %s' % (self.paren(a), op, self.paren(b))

    def is_const_expr(self, e):
        e = self.unwrap(e)
        k = e.get('kind')
        if k in ('IntegerLiteral',):
            return True
        if k == 'ImplicitCastExpr':
            return self.is_const_expr(e['inner'][0])
        if k == 'DeclRefExpr':
            rn = e['referencedDecl'].get('name')
            return rn in self.tu.consts and rn not in self.tu.symbolic
        return False

    def x_CompoundAssignOperator(self, e):
        op = e['opcode']
        if op not in ('+=', '-=', '|=', '&=', '^=', '*=', '/=', '<<=', '>>='):
            die('compound operator %s' % op, e)
        a, b = e['inner']
        lt = self.ctype(a)
        ct = e.get('computeResultType', {}).get('qualType')
        if ct is not None:
            cct = self.T.c(ct, e)
            if cct != lt:
                # C++ computes in the common type, then converts back
                return '%s = (%s)((%s)%s %s %s)' % (self.expr(a), lt, cct, self.paren(a), op[:-1], self.paren(b))
        return '%s %s %s' % (self.expr(a), op, self.paren(b))

    def x_UnaryOperator(self, e):
        op = e['opcode']
        a = e['inner'][0]
        if op in ('++', '--'):
            s = self.paren(a)
            return (s + op) if e.get('isPostfix') else (op + s)
        if op == '&':
            return self.addr(a)
        if op == '*':
            return '(*%s)' % self.paren(a)
        if op in ('!', '~', '-', '+'):
            return '%s%s' % (op, self.paren(a))
        die('unary operator %s' % op, e)

    def x_UnaryExprOrTypeTraitExpr(self, e):
        if e.get('name') in ('sizeof', 'alignof') and e.get('argType'):
            ct = self.T.c(e['argType']['qualType'], e)
            if ct in ('uint64_t', 'size_t', 'int64_t', 'uint32_t', 'int32_t', 'double', '_Bool') or ct.endswith('*'):
                return '((size_t)%s(%s))' % ('sizeof' if e['name'] == 'sizeof' else '_Alignof', ct)
        die('sizeof/alignof of this operand is not modelled (object layouts differ between the C++ and the C text)', e)

    def x_ConditionalOperator(self, e):
        c, a, b = e['inner']
        return '(%s ? %s : %s)' % (self.paren(c), self.paren(a), self.paren(b))

    def x_InitListExpr(self, e):
        inner = e.get('inner', [])
        ct = self.ctype(e)
        if not inner and (ct.endswith('*') or ct in ('uint64_t', 'uint32_t', 'size_t', 'int64_t', 'int32_t', '_Bool', 'double')):
            return '0'
        if len(inner) == 1 and ct not in self.tu_fields:
            return self.expr(inner[0])
        die('unsupported init list of type %s' % ct, e)

    # construction of class objects -------------------------------------------
    def ctor_call(self, e):
        ct = self.ctype(e)
        args = [a for a in e.get('inner', [])]
        if ct in ('atomic_u64', 'atomic_b'):
            return '%s_init(%s)' % (ct, self.expr(args[0]) if args else '0')
        if ct in self.tu_fields:
            ctype_str = e.get('ctorType', {}).get('qualType', '')
            if len(args) == 1 and '&&' in ctype_str and ct.split('_')[-1] in ctype_str:
                return '%s_ctor_move(%s)' % (ct, self.addr(self.strip_move(args[0])))
            if len(args) == 1 and ctype_str.rstrip(') noexcept').endswith('&') and ct.split('_')[-1] in ctype_str:
                return '%s_ctor_copy(%s)' % (ct, self.addr(args[0]))
            return '%s_ctor%d(%s)' % (ct, len(args), ', '.join(self.expr(a) for a in args))
        # library types
        if ct == 'weak_ptr_size':
            if not args:
                return 'weak_ptr_size_default()'
            a = self.unwrap(args[0])
            at = self.ctype(a)
            if at == 'shared_ptr_size':
                return 'weak_ptr_size_from_shared(%s)' % self.addr(a)
            if at == 'weak_ptr_size':
                # move/copy construction from a weak_ptr prvalue/xvalue: value semantics
                return self.expr(a)
        if ct == 'shared_ptr_size' and not args:
            return 'shared_ptr_size_default()'
        if ct == 'shared_ptr_size' and len(args) == 1:
            ctype_str = e.get('ctorType', {}).get('qualType', '')
            a = args[0]
            if '&&' in ctype_str:
                moved = self.strip_move(a)
                if moved is not a:
                    return 'shared_ptr_size_ctor_move(%s)' % self.addr(moved)
                u = self.unwrap(a, keep_materialize=True)
                if u.get('kind') == 'MaterializeTemporaryExpr' or u.get('valueCategory') == 'prvalue':
                    return self.expr(a)   # the prvalue is moved into the new object and dies empty
                die('shared_ptr move construction from %s not modelled' % u.get('kind'), e)
            if 'const' in ctype_str and '&' in ctype_str:
                return 'shared_ptr_size_copy(%s)' % self.addr(a)   # one more owner
            die('shared_ptr construction %s not modelled' % ctype_str, e)
        if ct in ('std_greater_size', 'hash_thread_id') and not args:
            return '0'
        if ct == 'uniform_real_dist' and len(args) == 2:
            return 'uniform_real_dist_init(%s, %s)' % (self.expr(args[0]), self.expr(args[1]))
        if ct == 'vec_size_iter' and len(args) == 1:
            return self.expr(args[0])
        if ct == 'pair_EpochGuard_vecref' and len(args) == 2:
            a0 = self.strip_move(args[0])
            if a0 is args[0]:
                die('pair<EpochGuard, ...> construction from a non-moved guard', e)
            return 'pair_EpochGuard_vecref_make(EpochGuard_ctor_move(%s), %s)' % (self.addr(a0), self.addr(args[1]))
        die('construction of %s with %d args not modelled' % (ct, len(args)), e)

    def strip_move(self, a):
        """std::move(x) / static_cast<T&&>(x) -> x"""
        u = self.unwrap(a)
        if u.get('kind') == 'CallExpr':
            callee = self.unwrap(u['inner'][0])
            while callee.get('kind') == 'ImplicitCastExpr':
                callee = callee['inner'][0]
            if callee.get('kind') == 'DeclRefExpr' and callee['referencedDecl'].get('name') == 'move':
                return u['inner'][1]
        return a

    x_CXXConstructExpr = ctor_call
    x_CXXTemporaryObjectExpr = ctor_call

    def x_CXXNewExpr(self, e):
        ctor = [c for c in e.get('inner', []) if c.get('kind') in ('CXXConstructExpr', 'InitListExpr')]
        t = self.T.c(strip_cv(self.qt(e)).rstrip('*').strip(), e)
        if ctor and ctor[0].get('kind') == 'CXXConstructExpr':
            val = self.ctor_call(ctor[0])
        else:
            val = '%s_ctor0()' % t
        self.stat('calls')
        return 'verif_new_%s(%s)' % (t, val)

    def x_CXXDeleteExpr(self, e):
        a = e['inner'][0]
        t = self.T.c(strip_cv(self.qt(a)).rstrip('*').strip(), e)
        return 'verif_delete_%s(%s)' % (t, self.expr(a))

    def x_CXXThrowExpr(self, e):
        return 'verif_throw()'

    def x_LambdaExpr(self, e):
        return '0 /*stateless lambda object*/'

    # calls -------------------------------------------------------------------
    def callee_decl(self, c):
        while c.get('kind') in ('ImplicitCastExpr', 'ParenExpr'):
            c = c['inner'][0]
        return c

    def x_CallExpr(self, e):
        callee = self.callee_decl(e['inner'][0])
        args = e['inner'][1:]
        if callee.get('kind') != 'DeclRefExpr':
            die('indirect call', e)
        r = callee['referencedDecl']
        rid, rn = r['id'], r.get('name')
        self.stat('calls')
        if rid not in self.tu.funcs and rid in self.tu.extern_funcs:
            self.tu.funcs[rid] = self.tu.extern_funcs[rid]
            self.used_extern.append(self.tu.extern_funcs[rid])
        if rid not in self.tu.funcs and rn in self.tu.anon_funcs and '(anonymous namespace)' in str(r.get('qualifiedName', '(anonymous namespace)')):
            rid = self.tu.anon_funcs[rn]
        if rid in self.tu.funcs:
            f = self.tu.funcs[rid]
            return self.own_call(f, None, args, e)
        if rn == 'move' or rn == 'forward':
            return self.expr(args[0])
        if rn == 'exchange' and len(args) == 2 and self.ctype_of_expr(args[0]) == 'shared_ptr_size':
            # std::exchange(sp, nullptr): the old value is returned (ownership moves into the result), sp becomes empty
            a1 = self.unwrap(args[1])
            while a1.get('kind') in ('ImplicitCastExpr', 'MaterializeTemporaryExpr', 'CXXBindTemporaryExpr', 'CXXConstructExpr') and a1.get('inner'):
                a1 = self.unwrap(a1['inner'][0])
            if a1.get('kind') != 'CXXNullPtrLiteralExpr':
                die('std::exchange on a shared_ptr with a non-null new value', e)
            return 'shared_ptr_size_exchange_null(%s)' % self.addr(args[0])
        if rn == 'size' and len(args) == 1:
            # std::size of a built-in array
            at = self.unwrap(args[0]).get('type', {}).get('qualType', '')
            if re.search(r'\[\d+\]$', at):
                a = self.expr(args[0])
                return '((size_t)(sizeof(%s) / sizeof((%s)[0])))' % (a, a)
            die('std::size of %s' % at, e)
        if rn == 'swap' and len(args) == 2:
            # std::swap of two plain pointer / integer objects
            ct = self.ctype_of_expr(args[0])
            if ct != self.ctype_of_expr(args[1]):
                die('std::swap of different types', e)
            if ct.endswith('*'):
                return 'verif_swap_ptr((void **)%s, (void **)%s)' % (self.addr(args[0]), self.addr(args[1]))
            if ct in ('uint64_t', 'size_t', 'uint32_t', 'int64_t', 'int32_t', '_Bool'):
                return 'verif_swap_%s(%s, %s)' % (ct, self.addr(args[0]), self.addr(args[1]))
            die('std::swap on objects of type %s' % ct, e)
        if rn == 'exchange' and len(args) == 2:
            # std::exchange on a plain pointer / integer object: the old value is returned, the new one stored
            ct = self.ctype_of_expr(args[0])
            if ct.endswith('*'):
                return '((%s)verif_exchange_ptr((void **)%s, (void *)(%s)))' % (ct, self.addr(args[0]), self.expr(args[1]))
            if ct in ('uint64_t', 'size_t', 'uint32_t', 'int64_t', 'int32_t', '_Bool'):
                return 'verif_exchange_%s(%s, %s)' % (ct, self.addr(args[0]), self.expr(args[1]))
            die('std::exchange on an object of type %s' % ct, e)
        if rn == 'abs' and len(args) == 1:
            ct = self.ctype(e)
            if ct == 'double':
                return 'verif_fabs(%s)' % self.expr(args[0])
            if ct in ('int64_t', 'int32_t'):
                a = self.paren(args[0])
                return '(%s < 0 ? -%s : %s)' % (a, a, a)
            die('std::abs of %s' % ct, e)
        if rn == 'clamp' and len(args) == 3:
            ct = self.ctype(e)
            if ct not in ('double', 'uint64_t', 'size_t', 'int64_t', 'uint32_t', 'int32_t'):
                die('std::clamp of %s' % ct, e)
            return 'verif_min_%s(verif_max_%s(%s, %s), %s)' % (ct, ct, self.expr(args[0]), self.expr(args[1]), self.expr(args[2]))
        if rn == 'addressof' and len(args) == 1:
            return self.addr(args[0])
        if rn in ('max', 'min') and len(args) == 2:
            # std::min / std::max of two values (by-value stub; the reference result is only read)
            ct = self.ctype(e)
            if ct not in ('double', 'uint64_t', 'size_t', 'int64_t', 'uint32_t', 'int32_t'):
                die('std::%s of %s' % (rn, ct), e)
            return 'verif_%s_%s(%s, %s)' % (rn, ct, self.expr(args[0]), self.expr(args[1]))
        if rn in ('max', 'min') and not args:
            # std::numeric_limits<T>::max()/min()
            ct = self.ctype(e)
            table = {('max', 'uint64_t'): '0xffffffffffffffffUL', ('max', 'size_t'): '0xffffffffffffffffUL', ('min', 'uint64_t'): '0UL',
                     ('min', 'size_t'): '0UL', ('max', 'uint32_t'): '0xffffffffU', ('max', 'int64_t'): '0x7fffffffffffffffL',
                     ('max', 'int32_t'): '0x7fffffff'}
            if (rn, ct) not in table:
                die('numeric_limits::%s of %s' % (rn, ct), e)
            return '((%s)%s)' % (ct, table[(rn, ct)])
        if rn == 'bit_cast':
            # pointer <-> integer bit_cast goes through the stub address model (CBMC's own pointer encoding keeps the
            # object id in the top bits, which the lock's pointer/flag masks would cut off)
            to, frm = self.ctype(e), self.ctype_of_expr(args[0])
            if to.endswith('*') and not frm.endswith('*'):
                return 'verif_u64_to_%s(%s)' % (cident(to[:-1].strip()), self.expr(args[0]))
            if frm.endswith('*') and not to.endswith('*'):
                return 'verif_ptr_to_u64(%s)' % self.expr(args[0])
            return '((%s)%s)' % (to, self.paren(args[0]))
        if rn in LIB_FUNCS:
            stub = LIB_FUNCS[rn]
            if rn in ('pow', 'log'):
                return '%s(%s)' % (stub, ', '.join('(double)%s' % self.paren(a) for a in args))
            if rn == 'sleep_for':
                return '%s()' % stub
            if rn in ('sort',):
                return '%s(%s, %s)' % (stub, self.expr(args[0]), self.expr(args[1]))
            return '%s(%s)' % (stub, ', '.join(self.expr(a) for a in args))
        die('call to unknown function %s' % rn, e)

    def own_call(self, f, obj, args, e):
        params = [c for c in f.node.get('inner', []) if c.get('kind') == 'ParmVarDecl']
        out = []
        if obj is not None:
            out.append(obj)
        if f.node.get('_spin'):
            args = args[1:]
            params = params[1:]
        for p, a in zip(params, args):
            if self.T.is_ref(p['type']['qualType']):
                out.append(self.addr(self.strip_move(a)))
            else:
                out.append(self.expr(a))
        s = '%s(%s)' % (f.cname, ', '.join(out))
        rt = f.node['type']['qualType']
        ret = rt.split('->')[-1].strip() if '->' in rt else rt[:rt.index('(')].strip()
        if f.kind not in ('ctor', 'dtor') and self.T.is_ref(ret):
            return '(*%s)' % s
        return s

    def x_CXXMemberCallExpr(self, e):
        me = self.callee_decl(e['inner'][0])
        args = e['inner'][1:]
        if me.get('kind') != 'MemberExpr':
            die('member call through %s' % me.get('kind'), e)
        base = me['inner'][0]
        mid = me.get('referencedMemberDecl')
        name = me['name']
        self.stat('calls')
        if me.get('isArrow'):
            obj = self.expr(base)
        else:
            obj = self.addr(base)
        if mid not in self.tu.funcs and mid in self.tu.extern_funcs:
            self.tu.funcs[mid] = self.tu.extern_funcs[mid]
            self.used_extern.append(self.tu.extern_funcs[mid])
        if mid in self.tu.funcs:
            f = self.tu.funcs[mid]
            if f.kind == 'static':
                return self.own_call(f, None, args, e)
            return self.own_call(f, obj, args, e)
        # library method: decide by the C type of the object
        bt = self.obj_ctype(base, me.get('isArrow'))
        key = (bt, name)
        if key not in LIB_METHODS:
            die('library method %s::%s not in table' % (bt, name), e)
        stub, byref = LIB_METHODS[key]
        if bt.startswith('atomic_'):
            self.stat('atomic')
        outs = [obj]
        for i, a in enumerate(args):
            if a.get('kind') == 'CXXDefaultArgExpr':
                if bt.startswith('atomic_'):
                    outs.append('VERIF_MEMORY_ORDER_SEQ_CST')
                    continue
                die('default argument', a)
            outs.append(self.addr(a) if i in byref else self.expr(a))
        if stub.startswith('*'):
            return '(*%s(%s))' % (stub[1:], ', '.join(outs))
        return '%s(%s)' % (stub, ', '.join(outs))

    def obj_ctype(self, base, arrow):
        b = base
        while b.get('kind') in ('ImplicitCastExpr', 'ParenExpr') and b.get('castKind') in (
                None, 'UncheckedDerivedToBase', 'DerivedToBase', 'NoOp', 'LValueToRValue'):
            if b.get('castKind') == 'LValueToRValue':
                break
            b = b['inner'][0]
        ct = self.ctype(b)
        if arrow:
            if not ct.endswith('*'):
                die('arrow on non-pointer %s' % ct, base)
            ct = ct[:-1].strip()
        return ct

    def x_CXXOperatorCallExpr(self, e):
        callee = self.callee_decl(e['inner'][0])
        args = e['inner'][1:]
        r = callee.get('referencedDecl', {})
        rid, rn = r.get('id'), r.get('name')
        self.stat('calls')
        if rid in self.lambda_funcs:
            return '%s(%s)' % (self.lambda_funcs[rid], ', '.join(self.expr(a) for a in args[1:]))
        if rid in self.tu.funcs:
            f = self.tu.funcs[rid]
            return self.own_call(f, self.addr(args[0]), args[1:], e)
        a0t = self.ctype_of_expr(args[0])
        if rn == 'operator=':
            if a0t == 'weak_ptr_size':
                return 'weak_ptr_size_assign(%s, %s)' % (self.addr(args[0]), self.expr(args[1]))
            if a0t == 'shared_ptr_size':
                return 'shared_ptr_size_move_assign(%s, %s)' % (self.addr(args[0]), self.addr(self.strip_move(args[1])))
            if a0t == 'vec_double':
                u = self.unwrap(args[1])
                vals = self.init_list_values(u)
                if vals is not None and len(vals) == 1:
                    return 'vec_double_assign1(%s, %s)' % (self.addr(args[0]), vals[0])
            if a0t == 'arr_double_100':
                # std::array<double,100> = {v}: aggregate temporary, remaining elements value-initialised to 0.0
                u = self.unwrap(args[1])
                while u.get('kind') == 'InitListExpr' and u.get('inner') and self.unwrap(u['inner'][0]).get('kind') == 'InitListExpr':
                    u = self.unwrap(u['inner'][0])
                if 'array_filler' in u:
                    # clang: [filler expression, explicit initialisers...]; the filler must be value initialisation
                    if u['array_filler'][0].get('kind') != 'ImplicitValueInitExpr':
                        die('array filler is not value-initialisation', u)
                    vals = [self.expr(x) for x in u['array_filler'][1:]]
                else:
                    vals = self.init_list_values(u)
                if vals is not None and len(vals) == 1:
                    return 'arr_double_100_assign1(%s, %s)' % (self.addr(args[0]), vals[0])
        if rn == 'operator[]' and a0t in ('vec_double', 'vec_size', 'arr_double_100', 'arr_vec_size_256') and len(args) == 2:
            # v[i]: out-of-range is undefined behaviour; the bounds-checked stub reports it (stricter, never weaker)
            return '(*%s_at(%s, %s))' % (a0t, self.addr(args[0]), self.expr(args[1]))
        if rn == 'operator*':
            if a0t == 'shared_ptr_size':
                return '(*shared_ptr_size_deref(%s))' % self.addr(args[0])
            if a0t == 'vec_size_iter':
                return '(*vec_size_iter_deref(%s))' % self.addr(args[0])
        if rn == 'operator++' and a0t == 'vec_size_iter':
            if len(args) != 1:
                die('postfix iterator increment', e)
            return '(*vec_size_iter_inc(%s))' % self.addr(args[0])
        if rn in ('operator==', 'operator!=') and a0t == 'vec_size_iter':
            s = 'vec_size_iter_eq(%s, %s)' % (self.addr(args[0]), self.addr(args[1]))
            return s if rn == 'operator==' else '!' + s
        if rn == 'operator bool' or (rn is None):
            pass
        if rn == 'operator()' and a0t == 'uniform_real_dist':
            return 'uniform_real_dist_call(%s, %s)' % (self.addr(args[0]), self.addr(args[1]))
        if rn == 'operator()' and a0t == 'hash_thread_id':
            return 'hash_thread_id_call(%s)' % self.expr(args[1])
        die('operator call %s on %s not in table' % (rn, a0t), e)

    def init_list_values(self, u):
        # {1.0} for std::vector<double>::operator=(initializer_list)
        k = u.get('kind')
        if k == 'CXXStdInitializerListExpr':
            inner = self.unwrap(u['inner'][0])
            if inner.get('kind') == 'InitListExpr':
                return [self.expr(x) for x in inner.get('inner', [])]
        if k == 'InitListExpr':
            return [self.expr(x) for x in u.get('inner', [])]
        return None

    def ctype_of_expr(self, a):
        b = a
        while b.get('kind') in ('ImplicitCastExpr', 'MaterializeTemporaryExpr', 'ParenExpr'):
            b = b['inner'][0]
        return self.ctype(b)

    def x_CXXMemberCallExpr_conv(self, e):
        pass


# user-defined conversions (unique_ptr -> bool, guard -> bool) appear as
# ImplicitCastExpr<UserDefinedConversion> over a CXXMemberCallExpr of a
# CXXConversionDecl; the member call is emitted by x_CXXMemberCallExpr, where
# the library case needs one more table entry:
LIB_METHODS[('unique_ptr_MCSLock', 'operator bool')] = ('unique_ptr_MCSLock_bool', ())


# ----------------------------------------------------------------------------
# driver for one TU
# ----------------------------------------------------------------------------

def extract(src, incs, defs, symbolic=(), extra_flags=(), only_main_and_headers=True):
    tu = TU(src, incs, defs, symbolic, extra_flags)
    em = Emitter(tu)
    # 1. name lambdas after their enclosing function and SpinWithBackoff specialisations after their lambda
    lambda_by_type = {}
    for f in list(tu.func_order):
        cnt = [0]

        def find_lambdas(n, p):
            if n.get('kind') == 'LambdaExpr':
                rec = [c for c in n['inner'] if c.get('kind') == 'CXXRecordDecl'][0]
                caps = [c for c in rec.get('inner', []) if c.get('kind') == 'FieldDecl']
                if caps:
                    die('lambda with captures is not supported', n)
                op = [c for c in rec['inner'] if c.get('kind') == 'CXXMethodDecl' and c.get('name') == 'operator()'][0]
                cname = '%s_lambda%d' % (f.cname, cnt[0])
                cnt[0] += 1
                if op['id'] not in em.lambda_funcs:
                    em.lambda_funcs[op['id']] = cname
                    lf = Func(op, cname, None, 'free')
                    f.lambdas.append(lf)
                    lambda_by_type[n['type']['qualType']] = cname
        body = [c for c in f.node.get('inner', []) if c.get('kind') == 'CompoundStmt']
        if body:
            # LambdaExpr lists its body twice (inside the closure class and as last child): walk the record only
            def walk(n):
                if not isinstance(n, dict):
                    return
                if n.get('kind') == 'LambdaExpr':
                    find_lambdas(n, None)
                    return
                for c in n.get('inner', []) or []:
                    walk(c)
            walk(body[0])
    for f in tu.func_order:
        n = f.node
        if n.get('_spec') and n.get('name') == 'SpinWithBackoff':
            params = [c for c in n.get('inner', []) if c.get('kind') == 'ParmVarDecl']
            lt = params[0]['type']['qualType']
            if lt not in lambda_by_type:
                die('SpinWithBackoff specialisation over unknown callable %s' % lt, n)
            f.cname = 'SpinWithBackoff__' + lambda_by_type[lt]
            n['_spin'] = True
    # de-duplicate function names (overloads) -- must not happen silently
    seen = {}
    for f in tu.func_order:
        if f.cname in seen and seen[f.cname] is not f.node:
            die('duplicate C name %s' % f.cname, f.node)
        seen[f.cname] = f.node
    # 2. records, constants
    em.emit_records()
    head = []
    head.append('/* GENERATED by /verif/tools/cxx2c.py from %s -- do not edit */' % src)
    head.append('#include "verif_stubs.h"')
    em.lines = []
    em.emit_consts()
    const_lines = em.lines
    # 3. functions: lambdas first, then in source order; prototypes up front
    em.lines = []
    order = []
    for f in tu.func_order:
        for lf in f.lambdas:
            order.append(lf)
    spins = [f for f in tu.func_order if f.node.get('_spin')]
    others = [f for f in tu.func_order if not f.node.get('_spin')]
    order += spins + others
    for f in order:
        em.emit_function(f)
    func_lines = em.lines
    em.lines = []
    seen_ext = set()
    for f in em.used_extern:
        if f.cname in seen_ext:
            continue
        seen_ext.add(f.cname)
        em.begin_func(f)
        cret, params, retref = em.func_sig(f)
        plist = ['%s *this' % f.cls] if f.kind == 'method' else []
        for i, pp in enumerate(params):
            plist.append(em.param_decl(pp, i))
        sig = '%s %s(%s)' % (cret, f.cname, ', '.join(plist) if plist else 'void')
        em.emitted.append((f.cname, sig))
        em.w('/* defined in another translation unit: must be replaced by its contract */')
        em.w('/*@FUNC %s*/' % f.cname)
        em.w(sig)
        em.w('/*@CONTRACT %s*/' % f.cname)
        em.w(';')
        em.w('')
    func_lines = em.lines + func_lines
    protos = ['%s;' % sig for _, sig in em.emitted]
    glob_lines = []
    for g, n in tu.global_decls:
        qt = n['type']['qualType']
        m = re.match(r'^(.*)\[(\w+)\]$', qt)
        if m:
            ct = tu.types.c(m.group(1), n)
            bname = tu.symbolic_values.get(m.group(2), m.group(2))
            if bname in tu.symbolic:
                glob_lines.append('%s *%s; /* array[%s] with symbolic bound: block provided by the harness */' % (ct, g, bname))
            else:
                glob_lines.append('%s %s[%s];' % (ct, g, m.group(2)))
        else:
            ct = tu.types.c(qt, n)
            note = ' /* thread_local: the instance of the current thread */' if n.get('tls') else ''
            tu.storage = getattr(tu, 'storage', {})
            tu.storage[g] = 'thread_local' if n.get('tls') else 'static'
            glob_lines.append('%s %s;%s' % (ct, g, note))
    for ct, g in getattr(tu, 'tls_locals', []):
        glob_lines.append('%s %s; _Bool %s_constructed; /* function-local thread_local */' % (ct, g, g))
    text = '\n'.join(head + [''] + em.rec_lines[:0] + ['/* records */'] +
                     ['typedef struct %s %s;' % (c, c) for c, _ in tu.records] + em.rec_lines +
                     ['', '#include "verif_stubs_post.h"', '', '/* constants */'] + const_lines +
                     ['', '/* globals */'] + glob_lines + ['', '/* prototypes */'] + protos + [''] + func_lines) + '\n'
    meta = {
        'source': src,
        'functions': [c for c, _ in em.emitted],
        'stats': em.func_stats,
        'static_facts': tu.static_facts,
        'storage': getattr(tu, 'storage', {}),
        'deleted': getattr(tu, 'deleted', []),
        'records': [c for c, _ in tu.records],
        'constants': {k: None for k in tu.consts},
    }
    return text, meta


if __name__ == '__main__':
    import argparse
    ap = argparse.ArgumentParser()
    ap.add_argument('src')
    ap.add_argument('-o', default='-')
    ap.add_argument('-I', action='append', default=[])
    ap.add_argument('-D', action='append', default=[])
    ap.add_argument('--symbolic', action='append', default=[])
    ap.add_argument('--meta')
    a = ap.parse_args()
    try:
        text, meta = extract(a.src, a.I, a.D, a.symbolic)
    except ExtractError as ex:
        sys.stderr.write('EXTRACT-ERROR: %s\n' % ex)
        sys.exit(2)
    if a.o == '-':
        sys.stdout.write(text)
    else:
        open(a.o, 'w').write(text)
    if a.meta:
        json.dump(meta, open(a.meta, 'w'), indent=1)
