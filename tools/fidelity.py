#!/usr/bin/env python3
"""Extraction fidelity check: the C text emitted by cxx2c is compiled natively against executable stubs and compared
with the real C++ library on randomly generated single-threaded call sequences (lock word and guard booleans after
every call for PessimisticLock/OptimisticLock; CDF tables and samples for the Zipf generators).
Any disagreement means "extractor broken" (exit 2), never a property verdict."""
import os
import random
import subprocess
import sys

ROOT = os.path.dirname(os.path.dirname(os.path.abspath(__file__)))
sys.path.insert(0, os.path.join(ROOT, 'tools'))
import cxx2c  # noqa: E402

REPO = os.environ.get('VERIF_REPO', '/repo')
DEFS = ['DBGROUP_MAX_THREAD_NUM=32', 'CPP_UTILITY_SPINLOCK_RETRY_NUM=10', 'CPP_UTILITY_BACKOFF_TIME=10']


def sh(cmd, timeout=300):
    try:
        p = subprocess.run(cmd, capture_output=True, text=True, timeout=timeout)
    except subprocess.TimeoutExpired:
        return 124, '', 'timeout after %ds: %s' % (timeout, ' '.join(cmd[:3]))
    return p.returncode, p.stdout, p.stderr


class LockGen:
    """random valid (never blocking) call sequences over one lock object"""

    def __init__(self, cls, rng):
        self.cls, self.rng = cls, rng
        self.c, self.cpp = [], []
        self.P = {'pess': 'PessimisticLock', 'opt': 'OptimisticLock'}[cls]

    def emit(self, n_seq, n_ops):
        P = self.P
        for s in range(n_seq):
            self.c.append('static void seq_%d(void) { %s L = %s_ctor0();' % (s, P, P))
            self.cpp.append('static void seq_%d() { %s L{};' % (s, P))
            # guard slots
            slots = {'S': 3, 'SIX': 2, 'X': 2}
            st = {}
            for m, k in slots.items():
                for i in range(k):
                    nm = '%s%d' % (m, i)
                    st[nm] = None  # None = not constructed, 'own', 'empty'
                    self.c.append('%s_%sGuard %s; int has_%s = 0;' % (P, m, nm, nm))
                    self.cpp.append('std::optional<%s::%sGuard> %s;' % (P, m, nm))
            if self.cls == 'opt':
                for nm in ('O0', 'O1'):
                    st[nm] = None
                    self.c.append('OptimisticLock_OptGuard %s; int has_%s = 0;' % (nm, nm))
                    self.cpp.append('std::optional<OptimisticLock::OptGuard> %s;' % nm)
                for nm in ('C0', 'C1'):
                    st[nm] = None
                    self.c.append('OptimisticLock_CompositeGuard %s; int has_%s = 0;' % (nm, nm))
                    self.cpp.append('std::optional<OptimisticLock::CompositeGuard> %s;' % nm)
            cnt = {'S': 0, 'SIX': 0, 'X': 0}
            for o in range(n_ops):
                self.op(st, cnt, slots)
                self.dump(st)
            # destroy everything
            for nm in st:
                if st[nm] is not None:
                    self.destroy(nm, st, cnt)
            self.dump(st)
            self.c.append('}')
            self.cpp.append('}')

    def mode(self, nm):
        return nm.rstrip('0123456789')

    def destroy(self, nm, st, cnt):
        m = self.mode(nm)
        if st[nm] == 'own':
            cnt['S' if m == 'C' else m] -= 1
        st[nm] = None
        P = self.P
        if m in ('O',):
            self.c.append('has_%s = 0;' % nm)
        elif m == 'C':
            self.c.append('OptimisticLock_CompositeGuard_dtor(&%s); has_%s = 0;' % (nm, nm))
        else:
            self.c.append('%s_%sGuard_dtor(&%s); has_%s = 0;' % (P, m, nm, nm))
        self.cpp.append('%s.reset();' % nm)

    def acquire(self, nm, st, cnt):
        m = self.mode(nm)
        P = self.P
        self.c.append('%s = %s_Lock%s(&L); has_%s = 1;' % (nm, P, m, nm))
        self.cpp.append('%s.emplace(L.Lock%s());' % (nm, m))
        st[nm] = 'own'
        cnt[m] += 1

    def op(self, st, cnt, slots):
        r = self.rng
        P = self.P
        free = [n for n in st if st[n] is None]
        live = [n for n in st if st[n] is not None]
        for _ in range(20):
            k = r.randrange(12)
            if k == 0 and cnt['X'] == 0:
                c = [n for n in free if self.mode(n) == 'S']
                if c:
                    return self.acquire(r.choice(c), st, cnt)
            if k == 1 and cnt['X'] == 0 and cnt['SIX'] == 0:
                c = [n for n in free if self.mode(n) == 'SIX']
                if c:
                    return self.acquire(r.choice(c), st, cnt)
            if k == 2 and cnt['X'] == 0 and cnt['SIX'] == 0 and cnt['S'] == 0:
                c = [n for n in free if self.mode(n) == 'X']
                if c:
                    return self.acquire(r.choice(c), st, cnt)
            if k == 3 and live:
                return self.destroy(r.choice(live), st, cnt)
            if k == 4:
                # move assignment a = std::move(b) between two constructed guards of the same class
                for m in ('S', 'SIX', 'X', 'C'):
                    c = [n for n in live if self.mode(n) == m]
                    if len(c) >= 2:
                        a, b = r.sample(c, 2)
                        if st[a] == 'own':
                            cnt['S' if m == 'C' else m] -= 1
                        st[a], st[b] = st[b], 'empty'
                        cls = '%s_%sGuard' % (P, m) if m != 'C' else 'OptimisticLock_CompositeGuard'
                        self.c.append('%s_operator_assign(&%s, &%s);' % (cls, a, b))
                        self.cpp.append('*%s = std::move(*%s);' % (a, b))
                        return
            if k == 5:
                # move construction into a free slot
                for m in ('S', 'SIX', 'X', 'C'):
                    src = [n for n in live if self.mode(n) == m]
                    dst = [n for n in free if self.mode(n) == m]
                    if src and dst:
                        a, b = r.choice(dst), r.choice(src)
                        st[a], st[b] = st[b], 'empty'
                        cls = '%s_%sGuard' % (P, m) if m != 'C' else 'OptimisticLock_CompositeGuard'
                        self.c.append('%s = %s_ctor_move(&%s); has_%s = 1;' % (a, cls, b, a))
                        self.cpp.append('%s.emplace(std::move(*%s));' % (a, b))
                        return
            if k == 6 and cnt['S'] == 0:
                # upgrade an owning SIX guard (or a non-owning one) into a free X slot
                src = [n for n in live if self.mode(n) == 'SIX']
                dst = [n for n in free if self.mode(n) == 'X']
                if src and dst:
                    a, b = r.choice(dst), r.choice(src)
                    if st[b] == 'own':
                        cnt['SIX'] -= 1
                        cnt['X'] += 1
                    st[a], st[b] = st[b], 'empty'
                    self.c.append('%s = %s_SIXGuard_UpgradeToX(&%s); has_%s = 1;' % (a, P, b, a))
                    self.cpp.append('%s.emplace(%s->UpgradeToX());' % (a, b))
                    return
            if k == 7:
                src = [n for n in live if self.mode(n) == 'X']
                dst = [n for n in free if self.mode(n) == 'SIX']
                if src and dst:
                    a, b = r.choice(dst), r.choice(src)
                    if st[b] == 'own':
                        cnt['X'] -= 1
                        cnt['SIX'] += 1
                    st[a], st[b] = st[b], 'empty'
                    self.c.append('%s = %s_XGuard_DowngradeToSIX(&%s); has_%s = 1;' % (a, P, b, a))
                    self.cpp.append('%s.emplace(%s->DowngradeToSIX());' % (a, b))
                    return
            if self.cls == 'opt':
                if k == 8 and cnt['X'] == 0:
                    c = [n for n in free if self.mode(n) == 'O']
                    if c:
                        a = r.choice(c)
                        st[a] = 'empty'
                        self.c.append('%s = OptimisticLock_GetVersion(&L); has_%s = 1;' % (a, a))
                        self.cpp.append('%s.emplace(L.GetVersion());' % a)
                        return
                if k == 9 and cnt['X'] == 0:
                    c = [n for n in live if self.mode(n) == 'O']
                    if c:
                        a = r.choice(c)
                        what = r.randrange(4)
                        if what == 0:
                            self.c.append('printf("vv %%d\\n", (int)OptimisticLock_OptGuard_VerifyVersion(&%s));' % a)
                            self.cpp.append('printf("vv %%d\\n", (int)%s->VerifyVersion());' % a)
                            return
                        m = ['S', 'SIX', 'X'][what - 1]
                        dst = [n for n in free if self.mode(n) == m]
                        adm = {'S': cnt['X'] == 0, 'SIX': cnt['X'] == 0 and cnt['SIX'] == 0, 'X': cnt['S'] == 0 and cnt['SIX'] == 0 and cnt['X'] == 0}[m]
                        if dst and adm:
                            # result ownership depends on the version: both sides print it and the python model re-syncs from the flag
                            d = r.choice(dst)
                            self.c.append('%s = OptimisticLock_OptGuard_TryLock%s(&%s); has_%s = 1; if(%s.dest_ != 0) printf("try-own\\n"); else { printf("try-fail\\n"); }' % (d, m, a, d, d))
                            self.cpp.append('%s.emplace(%s->TryLock%s()); if(*%s) printf("try-own\\n"); else { printf("try-fail\\n"); }' % (d, a, m, d))
                            # the python model cannot know the outcome: release immediately to stay in sync
                            st[d] = 'empty'
                            cls = 'OptimisticLock_%sGuard' % m
                            self.c.append('%s_dtor(&%s); has_%s = 0;' % (cls, d, d))
                            self.cpp.append('%s.reset();' % d)
                            st[d] = None
                            return
                if k == 10 and cnt['X'] == 0:
                    c = [n for n in free if self.mode(n) == 'C']
                    if c:
                        a = r.choice(c)
                        # PrepareRead without X: always optimistic (non-owning)
                        st[a] = 'empty'
                        self.c.append('%s = OptimisticLock_PrepareRead(&L); has_%s = 1;' % (a, a))
                        self.cpp.append('%s.emplace(L.PrepareRead());' % a)
                        return
                if k == 11:
                    c = [n for n in live if self.mode(n) == 'X' and st[n] == 'own']
                    if c:
                        a = r.choice(c)
                        v = r.choice([0, 1, 7, 0xffffffff, 0xfffffffe, r.randrange(1 << 32)])
                        self.c.append('OptimisticLock_XGuard_SetVersion(&%s, %uU); printf("gv %%u\\n", OptimisticLock_XGuard_GetVersion(&%s));' % (a, v, a))
                        self.cpp.append('%s->SetVersion(%uU); printf("gv %%u\\n", %s->GetVersion());' % (a, v, a))
                        return
        return

    def dump(self, st):
        names = sorted(st)
        cfmt = 'w=%016llx' + ''.join(' %s=%%d' % n for n in names) + '\\n'
        cargs = ['(unsigned long long)L.lock_.v']
        pargs = ['(unsigned long long)L.lock_.load()']
        for n in names:
            m = self.mode(n)
            fld = {'S': 'dest_ != 0', 'SIX': 'dest_ != 0', 'X': 'dest_ != 0', 'O': 'dest_ != 0 && 0', 'C': 'has_lock_'}[m]
            cargs.append('(has_%s ? (int)(%s.%s) : -1)' % (n, n, fld))
            pargs.append('(%s ? (int)static_cast<bool>(*%s) : -1)' % (n, n))
        self.c.append('printf("%s", %s);' % (cfmt, ', '.join(cargs)))
        self.cpp.append('printf("%s", %s);' % (cfmt, ', '.join(pargs)))


def run_lock(cls, n_seq, seed, work):
    src = os.path.join(REPO, 'src/lock', {'pess': 'pessimistic_lock.cpp', 'opt': 'optimistic_lock.cpp'}[cls])
    text, meta = cxx2c.extract(src, [os.path.join(REPO, 'include')], DEFS + ['CPP_UTILITY_HAS_SPINLOCK_HINT'], [])
    g = LockGen(cls, random.Random(seed))
    g.emit(n_seq, 25)
    cfile = os.path.join(work, 'fid_%s.c' % cls)
    calls = '\n'.join('seq_%d();' % i for i in range(n_seq))
    open(cfile, 'w').write(text + '\n_Bool verif_thrown;\n' + '\n'.join(g.c) + '\nint main(void)\n{\n' + calls + '\nreturn 0;\n}\n')
    cppfile = os.path.join(work, 'fid_%s.cpp' % cls)
    hdr = {'pess': 'pessimistic_lock', 'opt': 'optimistic_lock'}[cls]
    open(cppfile, 'w').write('#include <cstdio>\n#include <optional>\n#include <utility>\n#include "dbgroup/lock/%s.hpp"\nusing dbgroup::lock::%s;\n' % (hdr, g.P) + '\n'.join(g.cpp) + '\nint main()\n{\n' + calls + '\nreturn 0;\n}\n')
    rc, o, e = sh(['gcc', '-O1', '-w', '-DVERIF_NATIVE', '-I' + os.path.join(ROOT, 'stubs'), cfile, '-o', cfile + '.exe', '-lm'])
    if rc:
        return 'C build failed: ' + e[-800:], 0
    rc, o, e = sh(['g++', '-std=c++20', '-O1', '-w', '-fno-access-control', '-I' + os.path.join(REPO, 'include')] + ['-D' + d for d in DEFS] + [cppfile, src, '-o', cppfile + '.exe', '-pthread'])
    if rc:
        return 'C++ build failed: ' + e[-800:], 0
    rc1, o1, e1 = sh(['timeout', '60', cfile + '.exe'])
    rc2, o2, e2 = sh(['timeout', '60', cppfile + '.exe'])
    if rc1 == 124 and rc2 == 124:
        # both the extracted code and the real library hang (a changed lock that never becomes free again): that is a
        # property matter, not an extraction matter; what both printed before must still agree
        l1, l2 = o1.split('\n')[:-1], o2.split('\n')[:-1]
        n = min(len(l1), len(l2))
        for i in range(n):
            if l1[i] != l2[i]:
                return 'trace differs at line %d: extracted "%s" vs real "%s"' % (i + 1, l1[i], l2[i]), i
        return None, n
    if rc1 or rc2:
        return 'driver failed rc=%d/%d' % (rc1, rc2), 0
    l1, l2 = o1.split('\n'), o2.split('\n')
    for i, (a, b) in enumerate(zip(l1, l2)):
        if a != b:
            return 'trace differs at line %d: extracted "%s" vs real "%s"' % (i + 1, a, b), i
    if len(l1) != len(l2):
        return 'trace lengths differ', 0
    return None, len(l1)


def run_zipf(n_cases, seed, work):
    src_tu = os.path.join(ROOT, 'harness', 'zipf_tu.cpp')
    src = os.path.join(REPO, 'src/random/zipf.cpp')
    text, meta = cxx2c.extract(src_tu, [os.path.join(REPO, 'include'), REPO], DEFS, [], ['-DVERIF_REPO_SRC="%s"' % src])
    rng = random.Random(seed)
    c, cpp = [], []
    TY = {'u32': 'uint32_t', 'u64': 'uint64_t', 'i32': 'int32_t', 'i64': 'int64_t'}
    for k in range(n_cases):
        t = rng.choice(sorted(TY))
        n = rng.choice([1, 2, 3, 50, 99, 100, 101, 102, 150, 300, rng.randrange(1, 400)])
        signed = t.startswith('i')
        mn = rng.choice([0, 5, -7 if signed else 9, (-(1 << 31) if t == 'i32' else 3), (1 << 30)])
        mx = mn + n - 1
        alpha = rng.choice([0.0, 0.5, 0.99, 1.0, 1.01, 2.0, 3.0, rng.randrange(0, 3000) / 1000.0])
        words = [0, (1 << 64) - 1, (1 << 63), rng.randrange(1 << 64), rng.randrange(1 << 64)]
        c.append('static void case_%d(void) {' % k)
        cpp.append('static void case_%d() {' % k)
        for cls, C in (('ZipfDistribution', 'ZipfDistribution'), ('ApproxZipfDistribution', 'ApproxZipfDistribution')):
            lit = lambda v: ('%dLL' % v) if v > -(1 << 63) else '(-9223372036854775807LL-1)'
            c.append('{ verif_thrown = 0; %s_%s d = %s_%s_ctor3((%s)%s, (%s)%s, %r);' % (C, t, C, t, TY[t], lit(mn), TY[t], lit(mx), alpha))
            cpp.append('{ %s<%s> d{(%s)%s, (%s)%s, %r};' % (cls, TY[t], TY[t], lit(mn), TY[t], lit(mx), alpha))
            ks = sorted(set([0, n - 1, n // 2, min(99, n - 1), min(100, n - 1), min(101, n - 1)]))
            for kk in ks:
                c.append('printf("cdf %%a\\n", %s_%s_GetCDF(&d, (%s)%d));' % (C, t, TY[t], kk))
                cpp.append('printf("cdf %%a\\n", d.GetCDF((%s)%d));' % (TY[t], kk))
                # engine words that land exactly on / next to this CDF breakpoint (computed by each side from its own value)
                c.append('{ double cv = %s_%s_GetCDF(&d, (%s)%d); unsigned long long w0 = cv < 1.0 ? (unsigned long long)((long double)cv * 18446744073709551616.0L) : 0xffffffffffffffffULL; for(int dd = -1; dd <= 1; dd++) { rand_engine g; g.state = w0 + (unsigned long long)(dd * 2048); printf("bv %%lld\\n", (long long)%s_%s_call(&d, &g)); } }' % (C, t, TY[t], kk, C, t))
                cpp.append('{ double cv = d.GetCDF((%s)%d); unsigned long long w0 = cv < 1.0 ? (unsigned long long)((long double)cv * 18446744073709551616.0L) : 0xffffffffffffffffULL; for(int dd = -1; dd <= 1; dd++) { FixedEngine g{w0 + (unsigned long long)(dd * 2048)}; printf("bv %%lld\\n", (long long)d(g)); } }' % (TY[t], kk))
            for w in words:
                c.append('{ rand_engine g; g.state = %dULL; printf("v %%lld\\n", (long long)%s_%s_call(&d, &g)); }' % (w, C, t))
                cpp.append('{ FixedEngine g{%dULL}; printf("v %%lld\\n", (long long)d(g)); }' % w)
            c.append('}')
            cpp.append('}')
        c.append('}')
        cpp.append('}')
    calls = '\n'.join('case_%d();' % i for i in range(n_cases))
    cfile = os.path.join(work, 'fid_zipf.c')
    open(cfile, 'w').write(text + '\n_Bool verif_thrown;\n' + '\n'.join(c) + '\nint main(void)\n{\n' + calls + '\nreturn 0;\n}\n')
    cppfile = os.path.join(work, 'fid_zipf.cpp')
    open(cppfile, 'w').write('#include <cstdio>\n#include <cstdint>\n#include <limits>\n#include "dbgroup/random/zipf.hpp"\nusing namespace dbgroup::random;\n'
                             'struct FixedEngine { using result_type = uint64_t; uint64_t w; static constexpr uint64_t min() { return 0; } static constexpr uint64_t max() { return std::numeric_limits<uint64_t>::max(); } uint64_t operator()() { return w; } };\n'
                             + '\n'.join(cpp) + '\nint main()\n{\n' + calls + '\nreturn 0;\n}\n')
    rc, o, e = sh(['gcc', '-O1', '-w', '-ffp-contract=off', '-DVERIF_NATIVE', '-I' + os.path.join(ROOT, 'stubs'), cfile, '-o', cfile + '.exe', '-lm'])
    if rc:
        return 'C build failed: ' + e[-800:], 0
    rc, o, e = sh(['g++', '-std=c++20', '-O1', '-w', '-ffp-contract=off', '-I' + os.path.join(REPO, 'include'), cppfile, src, '-o', cppfile + '.exe'])
    if rc:
        return 'C++ build failed: ' + e[-800:], 0
    rc1, o1, e1 = sh(['timeout', '120', cfile + '.exe'])
    rc2, o2, e2 = sh(['timeout', '120', cppfile + '.exe'])
    if bool(rc1) != bool(rc2):
        return 'only one of the two drivers failed: rc=%d/%d %s' % (rc1, rc2, (o1 + e1)[-200:]), 0
    l1, l2 = o1.split('\n'), o2.split('\n')
    if rc1 and rc2:
        # both the extracted C and the real library stop at an out-of-range access (vector::at/array::at): compare what was
        # printed before (the real program dies in terminate() and may lose its last, partially buffered line)
        l1 = o1.replace('OUT_OF_RANGE\n', '').split('\n')
        n = max(min(len(l1), len(l2)) - 1, 0)
        l1, l2 = l1[:n], l2[:n]
    for i, (a, b) in enumerate(zip(l1, l2)):
        if a != b:
            return 'output differs at line %d: extracted "%s" vs real "%s"' % (i + 1, a, b), i
    if len(l1) != len(l2):
        return 'output lengths differ', 0
    return None, len(l1)


def epoch_script(n_hist, seed, k):
    """random sequential histories over k-1 workers (the main thread owns one id): every history ends with all guards destroyed"""
    rng = random.Random(seed)
    ops, start = [], [0]
    for h in range(n_hist):
        alive = [False] * (k - 1)
        guard = [False] * (k - 1)
        style = rng.randrange(4)
        for _ in range(rng.randrange(15, 90)):
            r = rng.randrange(100)
            w = rng.randrange(k - 1)
            if r < 45:
                n = 1
                if style >= 2 and rng.randrange(3) == 0:
                    n = 1 + rng.randrange(600)
                if style == 1 and rng.randrange(2) == 0:
                    n = 200 + rng.randrange(120)
                ops.append(('F', 0, n))
            elif r < 68:
                if not guard[w]:
                    alive[w] = True
                    guard[w] = True
                    ops.append(('L' if rng.randrange(3) == 0 else 'G', w, 0))
                elif rng.randrange(3) == 0:
                    ops.append(('A', w, 0))
            elif r < 88:
                if guard[w] and (style != 1 or rng.randrange(3) == 0):
                    guard[w] = False
                    ops.append(('D', w, 0))
            else:
                if alive[w] and not guard[w]:
                    alive[w] = False
                    ops.append(('X', w, 0))
        for w in range(k - 1):
            if guard[w]:
                ops.append(('D', w, 0))
        ops.append(('F', 0, 1))
        ops.append(('F', 0, 1))
        start.append(len(ops))
    return ops, start


def run_epoch(n_hist, seed, work):
    k = 4
    src_tu = os.path.join(ROOT, 'harness', 'epoch_tu.cpp')
    defs = ['DBGROUP_MAX_THREAD_NUM=7919'] + [d for d in DEFS if not d.startswith('DBGROUP_MAX_THREAD_NUM')]   # as in the proofs: the capacity stays symbolic
    text, meta = cxx2c.extract(src_tu, [os.path.join(REPO, 'include'), REPO], defs, ['kMaxThreadNum=7919'], [])
    ops, start = epoch_script(n_hist, seed, k)
    inc = '#define FID_K %d\n#define FID_HISTORIES %d\ntypedef struct { char kind; int w; int n; } fid_op;\n' % (k, n_hist)
    inc += 'static const fid_op fid_ops[] = {%s};\n' % ', '.join("{'%s', %d, %d}" % o for o in ops)
    inc += 'static const int fid_start[] = {%s};\n' % ', '.join(str(x) for x in start)
    open(os.path.join(work, 'fid_epoch_script.inc'), 'w').write(inc)
    open(os.path.join(work, 'fid_epoch_extracted.c'), 'w').write(text)
    cexe, pexe = os.path.join(work, 'fid_epoch_c.exe'), os.path.join(work, 'fid_epoch_cpp.exe')
    rc, o, e = sh(['gcc', '-O1', '-w', '-DVERIF_NATIVE', '-DVERIF_NATIVE_EPOCH', '-I' + os.path.join(ROOT, 'stubs'), '-I' + work,
                   os.path.join(ROOT, 'harness', 'fid_epoch_driver.c'), '-o', cexe])
    if rc:
        return 'C build failed: ' + e[-1200:], 0
    srcs = [os.path.join(REPO, 'src/thread', f) for f in ('epoch_manager.cpp', 'epoch_guard.cpp', 'id_manager.cpp', 'component/epoch.cpp')]
    rc, o, e = sh(['g++', '-std=c++20', '-O1', '-w', '-fno-access-control', '-I' + os.path.join(REPO, 'include'), '-I' + work] +
                  ['-D' + d for d in DEFS if not d.startswith('DBGROUP_MAX_THREAD_NUM')] + ['-DDBGROUP_MAX_THREAD_NUM=%d' % k,
                   os.path.join(ROOT, 'harness', 'fid_epoch_driver.cpp')] + srcs + ['-o', pexe, '-pthread'])
    if rc:
        return 'C++ build failed: ' + e[-1200:], 0
    rc1, o1, e1 = sh(['timeout', '120', cexe])
    rc2, o2, e2 = sh(['timeout', '120', pexe])
    if rc1 or rc2:
        return 'driver failed rc=%d/%d: %s' % (rc1, rc2, (o1[-200:] + e1[-200:] + e2[-200:])), 0
    l1, l2 = o1.split('\n'), o2.split('\n')
    for i, (a, b) in enumerate(zip(l1, l2)):
        if a != b:
            return 'trace differs at line %d: extracted "%s" vs real "%s"' % (i + 1, a[:200], b[:200]), i
    if len(l1) != len(l2):
        return 'trace lengths differ', 0
    return None, len(l1)


def check(component, tier, seed, work):
    """returns (error or None, number of compared observations)"""
    os.makedirs(work, exist_ok=True)
    quick = tier == 'quick'
    try:
        if component in ('pess', 'opt'):
            return run_lock(component, 40 if quick else 300, seed, work)
        if component == 'zipf':
            return run_zipf(20 if quick else 750, seed, work)
        if component in ('epoch', 'epochb'):
            return run_epoch(25 if quick else 600, seed, work)
    except cxx2c.ExtractError as ex:
        return 'extraction failed: %s' % ex, 0
    return None, 0


if __name__ == '__main__':
    comp = sys.argv[1]
    tier = sys.argv[2] if len(sys.argv) > 2 else 'quick'
    seed = int(sys.argv[3]) if len(sys.argv) > 3 else 0
    err, n = check(comp, tier, seed, os.path.join(ROOT, 'build', 'fid_%d' % os.getpid()))
    print('fidelity %s: %s (%d observations)' % (comp, err or 'ok', n))
    sys.exit(2 if err else 0)
