#!/bin/bash
# usage: seed_recheck.sh <seed-id> <property> [more properties...]
# re-runs the registered checks against a stored seeded change (patch applied to a scratch worktree of /repo, checked
# through VERIF_REPO; /repo itself is never touched) and refreshes check_<property>.log and the "checks" entry of meta.json
set -u
ID=$1; shift; PROPS="$@"
OUT=/verif/seeded/$ID
WT=/tmp/recheck_wt_$$; EV=/tmp/recheck_out_$$
git -C /repo worktree add -q --detach $WT HEAD || exit 2
mkdir -p $EV
git -C $WT apply $OUT/patch.diff || { echo "patch does not apply"; git -C /repo worktree remove --force $WT; exit 2; }
RES=""
for P in $PROPS; do
  VERIF_REPO=$WT VERIF_OUT_DIR=$EV python3 /verif/vcheck.py --property $P --tier quick > $OUT/check_$P.log 2>&1; RC=$?
  V=$(grep -c "^VIOLATION" $OUT/check_$P.log)
  RES="$RES $P:rc=$RC:violations=$V"
  echo "$ID check $P: rc=$RC violations=$V replayed=$(grep '^VIOLATION' $OUT/check_$P.log | grep -vc no-failing-input-found)"
  grep "failed obligation" $OUT/check_$P.log | head -2 | cut -c1-220
done
git -C /repo worktree remove --force $WT; rm -rf $EV
python3 - <<PY
import json
p="$OUT/meta.json"
m=json.load(open(p))
old={c.split(':')[0]: c for c in m.get('checks', []) if isinstance(c, str)}
for c in "$RES".split():
    old[c.split(':')[0]] = c
m['checks'] = sorted(old.values())
json.dump(m, open(p, 'w'), indent=1)
PY
