#!/bin/bash
# usage: seed_recheck.sh <seed-id> <property> [more properties...]
# re-runs the registered checks against a stored seeded change (/verif/seeded/<seed-id>/patch.diff applied to /repo and
# undone straight afterwards) and refreshes check_<property>.log and the "checks" entry of meta.json
set -u
ID=$1; shift; PROPS="$@"
OUT=/verif/seeded/$ID
cd /repo && git apply $OUT/patch.diff || { echo "patch does not apply to /repo"; exit 2; }
RES=""
for P in $PROPS; do
  python3 /verif/vcheck.py --property $P --tier quick > $OUT/check_$P.log 2>&1; RC=$?
  V=$(grep -c "^VIOLATION" $OUT/check_$P.log)
  RES="$RES $P:rc=$RC:violations=$V"
  echo "$ID check $P: rc=$RC violations=$V"
  grep "failed obligation" $OUT/check_$P.log | head -2 | cut -c1-220
done
git -C /repo checkout -q -- .
rm -rf /verif/replay/C*
python3 - <<PY
import json
p="$OUT/meta.json"
m=json.load(open(p))
old={c.split(':')[0]: c for c in m.get('checks', []) if isinstance(c, str)}
for c in "$RES".split():
    old[c.split(':')[0]] = c
m['checks'] = sorted(old.values())
json.dump(m, open(p, 'w'), indent=1)
PY
