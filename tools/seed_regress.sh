#!/bin/bash
# usage: seed_regress.sh [seed-id ...]     (default: every directory under /verif/seeded)
# Regression of the seeded changes: each patch is applied to a scratch worktree of /repo (never to /repo itself), the
# registered quick checks of the properties listed in meta.json are run against that copy (VERIF_REPO), evidence and
# replay files go to a scratch directory.  Prints one line per seed and check; exit 1 if a seed is no longer detected.
set -u
WT=/tmp/seedreg_wt_$$; OUT=/tmp/seedreg_out_$$
git -C /repo worktree add -q --detach $WT HEAD || exit 2
mkdir -p $OUT
SEEDS="$@"; [ -z "$SEEDS" ] && SEEDS=$(ls /verif/seeded)
MISSED=0
for ID in $SEEDS; do
  D=/verif/seeded/$ID
  [ -f $D/patch.diff ] || continue
  git -C $WT checkout -q -- . && git -C $WT apply $D/patch.diff || { echo "$ID: patch does not apply"; MISSED=1; continue; }
  PROPS=$(python3 -c "
import json
m=json.load(open('$D/meta.json'))
ps=[c.split(':')[0] for c in m.get('checks',[]) if isinstance(c,str) and ':rc=1' in c] or [c['property'] for c in m.get('checks',[]) if isinstance(c,dict) and c.get('violation_lines')]
print(' '.join(sorted(set(ps))))")
  for P in $PROPS; do
    VERIF_REPO=$WT VERIF_OUT_DIR=$OUT python3 /verif/vcheck.py --property $P --tier quick > $OUT/log 2>&1; RC=$?
    echo "$ID $P rc=$RC violations=$(grep -c '^VIOLATION' $OUT/log) replayed=$(grep '^VIOLATION' $OUT/log | grep -vc 'no-failing-input-found')"
    [ $RC -eq 1 ] || MISSED=1
  done
done
git -C /repo worktree remove --force $WT; rm -rf $OUT
exit $MISSED
