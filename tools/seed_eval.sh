#!/bin/bash
# usage: seed_eval.sh <seed-id> <worktree> <property> [more properties...]
# confirms a seeded change (tests pass with it, demo fails with it and passes without), stores it under
# /verif/seeded/<seed-id>/ and runs the registered checks against it in /repo (undone straight afterwards)
set -u
ID=$1; WT=$2; shift 2; PROPS="$@"
OUT=/verif/seeded/$ID
mkdir -p $OUT
cd $WT || exit 2
[ -f demo/patch.diff ] || git diff -- src include > demo/patch.diff
git checkout -q -- src include
bash demo/run.sh $WT > $OUT/demo_without.log 2>&1; RC0=$?
git apply demo/patch.diff || { echo "patch does not apply"; exit 2; }
bash demo/run.sh $WT > $OUT/demo_with.log 2>&1; RC1=$?
echo "demo: without change rc=$RC0, with change rc=$RC1"
( cmake -G Ninja -S . -B _build -DCMAKE_BUILD_TYPE=RelWithDebInfo -DCPP_UTILITY_BUILD_TESTS=ON -DFETCHCONTENT_SOURCE_DIR_GOOGLETEST=/usr/src/googletest -DFETCHCONTENT_FULLY_DISCONNECTED=ON >/dev/null 2>&1 && cmake --build _build >/dev/null 2>&1 && ctest --test-dir _build -j8 --timeout 300 2>&1 | tail -3 ) > $OUT/tests_with.log 2>&1
TESTS=$(grep -c "100% tests passed" $OUT/tests_with.log)
echo "tests with change: $(tail -3 $OUT/tests_with.log | head -1)"
rm -rf _build
cp demo/patch.diff demo/demo.cpp demo/run.sh $OUT/ 2>/dev/null
cp demo/NOTES.md $OUT/NOTES.md 2>/dev/null || cp NOTES.md $OUT/NOTES.md 2>/dev/null
# run the checks against the change: the agent's worktree (same HEAD as /repo, change applied) is checked through
# VERIF_REPO, evidence and replay files are redirected; /repo itself is only used to confirm that the patch applies
git -C /repo apply --check $OUT/patch.diff || { echo "patch does not apply to /repo"; exit 2; }
EV=/tmp/seed_eval_out_$$; mkdir -p $EV
RES=""
for P in $PROPS; do
  VERIF_REPO=$WT VERIF_OUT_DIR=$EV python3 /verif/vcheck.py --property $P --tier quick > $OUT/check_$P.log 2>&1; RC=$?
  V=$(grep -c "^VIOLATION" $OUT/check_$P.log)
  RES="$RES $P:rc=$RC:violations=$V"
  echo "check $P: rc=$RC violations=$V replayed=$(grep '^VIOLATION' $OUT/check_$P.log | grep -vc no-failing-input-found)"
  grep "failed obligation" $OUT/check_$P.log | head -3
done
rm -rf $EV
python3 - <<PY
import json
json.dump({"seed": "$ID", "breaks_property": "$PROPS".split()[0] if "$PROPS" else None, "demo_rc_without_change": $RC0, "demo_rc_with_change": $RC1,
           "existing_tests_pass_with_change": bool($TESTS), "checks": "$RES".split(),
           "what_i_ran": ["bash demo/run.sh <worktree> (with and without patch.diff)", "cmake/ctest in the worktree with the change", "git -C /repo apply --check patch.diff; VERIF_REPO=<worktree with the change> python3 /verif/vcheck.py --property <id> --tier quick (evidence redirected)"],
           "needs_to_manifest": "see NOTES.md"}, open("$OUT/meta.json", "w"), indent=1)
PY
