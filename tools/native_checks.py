"""bounded native stand-ins that are part of a property check (never counted as proved)"""
import os
import re

import replayers

ROOT = replayers.ROOT


def zipf_exe(ubsan=False):
    name = 'zipf_replay_ubsan' if ubsan else 'zipf_replay'
    extra = ['-O1', '-fsanitize=undefined', '-fno-sanitize-recover=all'] if ubsan else ['-O2']
    return replayers.build(name, [os.path.join(ROOT, 'replay', 'zipf_replay.cpp'), os.path.join(replayers.REPO, 'src/random/zipf.cpp')], extra=extra)


def run(name, tier, seed):
    obs = []
    if name == 'zipf_grid':
        exe, err = zipf_exe()
        if exe is None:
            raise RuntimeError('build failed: ' + err)
        rc, out = replayers.run([exe, 'grid', tier], 3000 if tier == 'thorough' else 600)
        m = re.search(r'GRID cases=(\d+) evaluations=(\d+) failures=(\d+)', out)
        lines = [l for l in out.split('\n') if l.startswith('REPLAY-FAIL')]
        if not m:
            if rc in (0, 1, 124):
                raise RuntimeError('grid produced no summary: ' + out[-500:])
            # the real generator crashed / threw inside the grid: an observable failure of the real code
            obs.append({'name': 'zipf_grid', 'description': '[C18][numeric-grid] the real generators terminated abnormally inside the numeric grid (rc=%d): %s' % (rc, ' '.join(out[-300:].split())),
                        'status': 'FAILURE', 'tags': ['C18', 'numeric-grid'], 'function': 'zipf_replay grid', 'line': None, 'file': 'zipf_replay.cpp',
                        'native': {'reproduced': True, 'command': 'zipf_replay grid %s' % tier, 'observed': [out[-300:]]}})
            cases, evals, fails = len(lines) + 1, 0, len(lines) + 1
        else:
            cases, evals, fails = int(m.group(1)), int(m.group(2)), int(m.group(3))
        for l in lines:
            obs.append({'name': 'zipf_grid', 'description': '[C18][numeric-grid] ' + l[len('REPLAY-FAIL: '):], 'status': 'FAILURE',
                        'tags': ['C18', 'numeric-grid'], 'function': 'zipf_replay grid', 'line': None, 'file': 'zipf_replay.cpp',
                        'native': {'reproduced': True, 'command': 'zipf_replay grid %s' % tier, 'observed': [l]}})
        obs.append({'name': 'zipf_grid', 'description': '[C18][numeric-grid] %d (n, alpha, type) cases, %d CDF evaluations against a long double reference' % (cases, evals),
                    'status': 'SUCCESS', 'tags': ['C18', 'numeric-grid'], 'function': 'zipf_replay grid', 'line': None, 'file': 'zipf_replay.cpp',
                    'weight': max(cases - len(lines), 0)})
        return obs
    if name == 'zipf_sweep':
        exe, err = zipf_exe()
        if exe is None:
            raise RuntimeError('build failed: ' + err)
        count = 150 if tier == 'quick' else 3000
        n = 0
        for cls in ('exact', 'approx'):
            for ty in ('u32', 'u64', 'i32', 'i64'):
                rc, out = replayers.run([exe, 'sweep', cls, ty, str(seed + 1), str(count)], 1200)
                n += count * 9
                lines = [l for l in out.split('\n') if l.startswith('REPLAY-FAIL')]
                for l in lines[:3]:
                    obs.append({'name': 'zipf_sweep', 'description': '[C06][native-sweep] ' + l[len('REPLAY-FAIL: '):], 'status': 'FAILURE',
                                'tags': ['C06', 'native-sweep'], 'function': 'zipf_replay sweep', 'line': None, 'file': 'zipf_replay.cpp',
                                'native': {'reproduced': True, 'command': 'zipf_replay sweep %s %s %d %d' % (cls, ty, seed + 1, count), 'observed': [l]}})
                if rc not in (0, 1):
                    # the real generator crashed / threw / hung: that is an observable failure of the real code, not an infrastructure problem
                    obs.append({'name': 'zipf_sweep', 'description': '[C06][native-sweep] the real %s generator (%s) terminated abnormally (rc=%d): %s' % (cls, ty, rc, ' '.join(out[-200:].split())),
                                'status': 'FAILURE', 'tags': ['C06', 'native-sweep'], 'function': 'zipf_replay sweep', 'line': None, 'file': 'zipf_replay.cpp',
                                'native': {'reproduced': True, 'command': 'zipf_replay sweep %s %s %d %d' % (cls, ty, seed + 1, count), 'observed': [out[-300:]]}})
        obs.append({'name': 'zipf_sweep', 'description': '[C06][native-sweep] %d samples of the real generators (random ranges incl. negative/near-limit bounds, engine words on/next to CDF breakpoints) satisfy the bracket property' % n,
                    'status': 'SUCCESS', 'tags': ['C06', 'native-sweep'], 'function': 'zipf_replay sweep', 'line': None, 'file': 'zipf_replay.cpp', 'weight': n})
        return obs
    if name == 'zipf_wide_range':
        exe, err = zipf_exe()
        if exe is None:
            raise RuntimeError('build failed: ' + err)
        for ty in ('u32', 'u64', 'i32', 'i64'):
            rc, out = replayers.run([exe, 'wide-range', ty], 120)
            lines = [l for l in out.split('\n') if l.startswith('REPLAY-FAIL')]
            if rc not in (0, 1) and not lines:
                lines = ['REPLAY-FAIL: wide-range ApproxZipfDistribution<%s> over the full range of the type: the real generator terminated abnormally (rc=%d)' % (ty, rc)]
            for l in lines[:2]:
                obs.append({'name': name, 'description': '[C06][wide-range] ' + l[len('REPLAY-FAIL: '):], 'status': 'FAILURE', 'tags': ['C06', 'wide-range'],
                            'function': 'zipf_replay wide-range', 'line': None, 'file': 'zipf_replay.cpp',
                            'native': {'reproduced': True, 'command': 'zipf_replay wide-range ' + ty, 'observed': [l]}})
            if not lines:
                obs.append({'name': name, 'description': '[C06][wide-range] ApproxZipfDistribution<%s> over ranges with more bins than the type can count samples correctly' % ty,
                            'status': 'SUCCESS', 'tags': ['C06', 'wide-range'], 'function': 'zipf_replay wide-range', 'line': None, 'file': 'zipf_replay.cpp', 'weight': 2000})
        return obs
    if name in ('zipf_seam_small', 'zipf_purity'):
        exe, err = zipf_exe()
        if exe is None:
            raise RuntimeError('build failed: ' + err)
        runs = [('seam-small', ty) for ty in ('u64', 'i32')] if name == 'zipf_seam_small' else [('purity', 'approx', 'u32'), ('purity', 'exact', 'i64'), ('purity', 'approx', 'i64'), ('purity', 'exact', 'u32')]
        tag = 'seam-small-n' if name == 'zipf_seam_small' else 'purity'
        ptag = 'C06' if name == 'zipf_seam_small' else 'C19'
        n = 0
        for r in runs:
            rc, out = replayers.run([exe] + list(r), 900)
            lines = [l for l in out.split('\n') if l.startswith('REPLAY-FAIL')]
            for l in lines[:3]:
                obs.append({'name': name, 'description': '[%s][%s] %s' % (ptag, tag, l[len('REPLAY-FAIL: '):]), 'status': 'FAILURE', 'tags': [ptag, tag],
                            'function': 'zipf_replay ' + r[0], 'line': None, 'file': 'zipf_replay.cpp',
                            'native': {'reproduced': True, 'command': 'zipf_replay ' + ' '.join(r), 'observed': [l]}})
            if rc not in (0, 1):
                obs.append({'name': name, 'description': '[%s][%s] the real generator terminated abnormally in zipf_replay %s (rc=%d): %s' % (ptag, tag, ' '.join(r), rc, ' '.join(out[-200:].split())),
                            'status': 'FAILURE', 'tags': [ptag, tag], 'function': 'zipf_replay ' + r[0], 'line': None, 'file': 'zipf_replay.cpp',
                            'native': {'reproduced': True, 'command': 'zipf_replay ' + ' '.join(r), 'observed': [out[-300:]]}})
            n += 1
        what = ('GetCDF(99) <= GetCDF(100) for 10 bin counts in [101, 20000] x 301 skews x 2 types' if name == 'zipf_seam_small' else
                'rerun / equal parameters / interleaved other generator / copy / move / copy-assignment / one const generator shared by 8 threads / max < min rejected, for 2 classes x 2 types x 36 parameter sets')
        obs.append({'name': name, 'description': '[%s][%s] %s' % (ptag, tag, what), 'status': 'SUCCESS', 'tags': [ptag, tag],
                    'function': 'zipf_replay', 'line': None, 'file': 'zipf_replay.cpp', 'weight': 3010 * 2 if name == 'zipf_seam_small' else 36 * 4 * 9})
        return obs
    raise RuntimeError('unknown native check %s' % name)
