#!/usr/bin/env python3
"""every @group lists all properties that the clauses of its enforced function are tagged with (run after editing tags)"""
import glob
import os
import re
ROOT = os.path.dirname(os.path.dirname(os.path.abspath(__file__)))
for p in glob.glob(os.path.join(ROOT, 'contracts', '*.spec')) + glob.glob(os.path.join(ROOT, 'contracts', '*.inc')):
    lines = open(p).read().split('\n')
    ftags, cur = {}, None
    for l in lines:
        m = re.match(r'^@function (\S+)', l)
        if m:
            cur = m.group(1)
            ftags.setdefault(cur, set())
            continue
        if l.startswith('@end'):
            cur = None
            continue
        if cur:
            t = re.match(r'^/\*((?:\[[^\]]+\])+)\*/', l)
            if t:
                ftags[cur].update(re.findall(r'\[(C\d\d)\]', t.group(1)))
    out, i, changed = [], 0, 0
    while i < len(lines):
        if lines[i].startswith('@group '):
            j, block = i, []
            while not lines[j].startswith('@end'):
                block.append(lines[j])
                j += 1
            enf = [b.split(':', 1)[1].strip() for b in block if b.startswith('enforce:')]
            if enf and enf[0] in ftags:
                for k, b in enumerate(block):
                    if b.startswith('properties:'):
                        have = b.split(':', 1)[1].split()
                        add = sorted(x for x in ftags[enf[0]] if x not in have)
                        if add:
                            block[k] = 'properties: ' + ' '.join(have + add)
                            changed += 1
            out.extend(block)
            i = j
            continue
        out.append(lines[i])
        i += 1
    if changed:
        open(p, 'w').write('\n'.join(out))
        print(p, changed)
