#!/bin/bash
# usage: benign_eval.sh <dir-with-edit_*.diff> <name-prefix> <property> [more properties...]
# Behaviour-preserving edits must not raise an alarm: each diff is applied to a scratch worktree of /repo, the quick
# checks of the given properties run against that copy (VERIF_REPO, evidence redirected).  rc=0 good, rc=2 undecided
# (robustness gap of the extractor/contracts), rc=1 FALSE ALARM.  The diffs are stored under /verif/benign/<name>/.
set -u
SRC=$1; NAME=$2; shift 2; PROPS="$@"
WT=/tmp/benign_wt_$$; OUT=/tmp/benign_out_$$
git -C /repo worktree add -q --detach $WT HEAD || exit 2
mkdir -p $OUT
BAD=0
for D in $(ls $SRC/edit_*.diff 2>/dev/null); do
  K=$(basename $D .diff)
  mkdir -p /verif/benign/${NAME}_$K
  cp $D /verif/benign/${NAME}_$K/patch.diff
  git -C $WT checkout -q -- . && git -C $WT apply $D || { echo "${NAME}_$K: patch does not apply"; continue; }
  RES=""
  for P in $PROPS; do
    VERIF_REPO=$WT VERIF_OUT_DIR=$OUT python3 /verif/vcheck.py --property $P --tier quick > $OUT/log 2>&1; RC=$?
    RES="$RES $P:rc=$RC"
    if [ $RC -ne 0 ]; then
      BAD=1
      echo "${NAME}_$K $P rc=$RC"; grep "^VIOLATION\|failed obligation\|^UNDECIDED" $OUT/log | grep -v "^VIOLATION" | head -4 | cut -c1-300
      cp $OUT/log /verif/benign/${NAME}_$K/check_$P.log
    fi
  done
  echo "${NAME}_$K:$RES"
  echo "$RES" > /verif/benign/${NAME}_$K/result.txt
done
git -C /repo worktree remove --force $WT; rm -rf $OUT
exit $BAD
