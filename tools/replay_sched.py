"""replay of interleaving counterexamples (thread ids, epochs) on the real code through the atomic shim + scheduler"""
import glob
import os
import re

import replayers

ROOT = replayers.ROOT


def build(maxthreads, tsan=False):
    name = 'sched_replay%d' % maxthreads
    srcs = [os.path.join(ROOT, 'replay', 'sched_replay.cpp')] + sorted(glob.glob(os.path.join(replayers.REPO, 'src/thread/*.cpp'))) + \
        sorted(glob.glob(os.path.join(replayers.REPO, 'src/thread/component/*.cpp'))) + [os.path.join(replayers.REPO, 'src/lock/mcs_lock.cpp')]
    extra = ['-include', os.path.join(ROOT, 'replay', 'atomic_shim.hpp'), '-I' + os.path.join(ROOT, 'replay'),
             '-UDBGROUP_MAX_THREAD_NUM', '-DDBGROUP_MAX_THREAD_NUM=%d' % maxthreads]
    return replayers.build(name, srcs, extra=extra)


def build_search(maxthreads):
    name = 'search_replay%d' % maxthreads
    srcs = [os.path.join(ROOT, 'replay', 'search_replay.cpp')] + sorted(glob.glob(os.path.join(replayers.REPO, 'src/thread/*.cpp'))) + \
        sorted(glob.glob(os.path.join(replayers.REPO, 'src/thread/component/*.cpp')))
    extra = ['-include', os.path.join(ROOT, 'replay', 'atomic_shim.hpp'), '-I' + os.path.join(ROOT, 'replay'),
             '-UDBGROUP_MAX_THREAD_NUM', '-DDBGROUP_MAX_THREAD_NUM=%d' % maxthreads]
    return replayers.build(name, srcs, extra=extra)


# bounded random search for a failing history on the real code, judged by the property statements (one run per check)
SEARCH = {'idm': ('id-search', 3, 'C05 C14 C15'), 'epoch': ('epoch-search', 4, 'C04 C16 C17 C20')}
_search_cache = {}


def search(comp_name):
    if comp_name in _search_cache:
        return _search_cache[comp_name]
    sc, k, props = SEARCH[comp_name]
    exe, err = build_search(k)
    if exe is None:
        res = {'reproduced': False, 'detail': 'search replayer build failed: ' + err}
    else:
        seed = int(os.environ.get('VERIF_SEED', '0') or 0) + 1
        res = {'reproduced': False, 'detail': '%s(K=%d): no failing history within the budget' % (sc, k)}
        for sd in (seed, seed + 1):
            rc, out = replayers.run([exe, sc, str(sd), '12'], 120)
            if rc == 1:
                res = {'reproduced': True, 'command': 'search_replay%d %s %d 12' % (k, sc, sd),
                       'input': {'scenario': sc, 'DBGROUP_MAX_THREAD_NUM': k, 'seed': sd},
                       'observed': [l[:600] for l in out.split('\n') if l.strip()][:6],
                       'how': 'bounded random search on the unmodified sources (g++ -include /verif/replay/atomic_shim.hpp, random perturbation at every atomic operation); '
                              'histories are judged by the statements of %s, so the failing history found may exercise the defect through another clause than the failed obligation' % props}
                break
    _search_cache[comp_name] = res
    return res


SCENARIOS = [
    # (component, group regex, obligation regex, scenario, DBGROUP_MAX_THREAD_NUM)
    ('idm', r'HeartBeater_dtor|GetHeartBeater', r'exit-order|heartbeat|flag', 'id-exit-order', 1),
    ('epoch', r'CreateEpochGuard|Forward|Collect', r'C04|heartbeat|pinned|tracked', 'epoch-id-reuse', 1),
    ('epoch', r'EpochGuard_operator_assign', r'keeps-its-pin|move-transfers', 'epoch-guard-reassign', 4),
    ('epoch', r'EpochGuard_operator_assign', r'overwritten-guard-stops-pinning', 'epoch-guard-foreign-assign', 4),
    ('epoch', r'nested_guards', r'nested', 'epoch-nested-guard', 4),
    ('epoch', r'GetProtectedEpochs$|EnterEpoch', r'pre\.node-of-pinned-epoch-linked|pins-an-epoch', 'enter-epoch-stall', 4),
    ('epoch', r'GetProtectedEpochs', r'lookup|right-node|guard-and-its-list', 'lookup-stall', 4),
    ('mcs', r'LockX|LockSIX', r'G\.node|G\.link|link', 'mcs-lost-link', 4),
    ('mcs', r'Unlock|Guard', r'recycle|life\.|C12', 'mcs-node-leak', 4),
]


def attempt(prop, comp_name, group, ob, rep):
    key = '%s %s' % (''.join('[%s]' % t for t in ob.get('tags', [])), ob.get('description', ''))
    tried = []
    for comp, gre, ore, sc, k in SCENARIOS:
        if comp != comp_name or not re.search(gre, group) or not re.search(ore, key):
            continue
        exe, err = build(k)
        if exe is None:
            return {'reproduced': False, 'detail': 'scheduler replayer build failed: ' + err}
        rc, out = replayers.run([exe, sc], 120)
        tried.append('%s(K=%d) rc=%d' % (sc, k, rc))
        if rc == 1:
            return {'reproduced': True, 'command': 'sched_replay%d %s' % (k, sc), 'input': {'scenario': sc, 'DBGROUP_MAX_THREAD_NUM': k},
                    'observed': [l for l in out.split('\n') if l.strip()][:8],
                    'how': 'g++ -include /verif/replay/atomic_shim.hpp (every std::atomic operation of the unmodified sources is a scheduling point); the counterexample interleaving is driven by /verif/replay/sched.hpp'}
    if comp_name in SEARCH:
        r = dict(search(comp_name))
        r['tried'] = tried
        return r
    return {'reproduced': False, 'detail': 'no scheduled scenario reproduced the failure', 'tried': tried}
