"""replay of interleaving counterexamples (thread ids, epochs) on the real code through the atomic shim + scheduler"""
import glob
import os
import re

import replayers

ROOT = replayers.ROOT


def build(maxthreads, tsan=False):
    name = 'sched_replay%d' % maxthreads
    srcs = [os.path.join(ROOT, 'replay', 'sched_replay.cpp')] + sorted(glob.glob(os.path.join(replayers.REPO, 'src/thread/*.cpp'))) + \
        sorted(glob.glob(os.path.join(replayers.REPO, 'src/thread/component/*.cpp'))) + [os.path.join(replayers.REPO, 'src/lock/mcs_lock.cpp')]
    extra = ['-include', os.path.join(ROOT, 'replay', 'atomic_shim.hpp'), '-I' + os.path.join(ROOT, 'replay'),
             '-UDBGROUP_MAX_THREAD_NUM', '-DDBGROUP_MAX_THREAD_NUM=%d' % maxthreads]
    return replayers.build(name, srcs, extra=extra)


SCENARIOS = [
    # (component, group regex, obligation regex, scenario, DBGROUP_MAX_THREAD_NUM)
    ('idm', r'HeartBeater_dtor|GetHeartBeater', r'exit-order|heartbeat|flag', 'id-exit-order', 1),
    ('epoch', r'CreateEpochGuard|Forward|Collect', r'C04|heartbeat|pinned|tracked', 'epoch-id-reuse', 1),
    ('epoch', r'GetProtectedEpochs|EnterEpoch', r'C17|node|list', 'enter-epoch-stall', 4),
    ('mcs', r'LockX|LockSIX', r'G\.node|G\.link|link', 'mcs-lost-link', 4),
    ('mcs', r'Unlock|Guard', r'recycle|life\.|C12', 'mcs-node-leak', 4),
]


def attempt(prop, comp_name, group, ob, rep):
    key = '%s %s' % (''.join('[%s]' % t for t in ob.get('tags', [])), ob.get('description', ''))
    tried = []
    for comp, gre, ore, sc, k in SCENARIOS:
        if comp != comp_name or not re.search(gre, group) or not re.search(ore, key):
            continue
        exe, err = build(k)
        if exe is None:
            return {'reproduced': False, 'detail': 'scheduler replayer build failed: ' + err}
        rc, out = replayers.run([exe, sc], 120)
        tried.append('%s(K=%d) rc=%d' % (sc, k, rc))
        if rc == 1:
            return {'reproduced': True, 'command': 'sched_replay%d %s' % (k, sc), 'input': {'scenario': sc, 'DBGROUP_MAX_THREAD_NUM': k},
                    'observed': [l for l in out.split('\n') if l.strip()][:8],
                    'how': 'g++ -include /verif/replay/atomic_shim.hpp (every std::atomic operation of the unmodified sources is a scheduling point); the counterexample interleaving is driven by /verif/replay/sched.hpp'}
    return {'reproduced': False, 'detail': 'no scheduled scenario reproduced the failure', 'tried': tried}
