"""native replay of verifier counterexamples against the real C++ code (DESIGN.md 2.7).

Every replayer builds from the CURRENT /repo working tree into /verif/build/native/<pid> and removes it again."""
import json
import os
import re
import shutil
import subprocess
import sys

ROOT = os.path.dirname(os.path.dirname(os.path.abspath(__file__)))
REPO = os.environ.get('VERIF_REPO', '/repo')
DEFS = ['-DDBGROUP_MAX_THREAD_NUM=32', '-DCPP_UTILITY_SPINLOCK_RETRY_NUM=10', '-DCPP_UTILITY_BACKOFF_TIME=10',
        '-DCPP_UTILITY_HAS_SPINLOCK_HINT']
_built = {}


def run(cmd, timeout=120, cwd=None):
    try:
        p = subprocess.run(cmd, capture_output=True, text=True, timeout=timeout, cwd=cwd)
        return p.returncode, p.stdout + p.stderr
    except subprocess.TimeoutExpired as e:
        out = e.stdout.decode() if isinstance(e.stdout, bytes) else (e.stdout or '')
        return 124, out + '\n[timeout after %ds]' % timeout


def native_dir():
    d = os.path.join(ROOT, 'build', 'native', str(os.getpid()))
    os.makedirs(d, exist_ok=True)
    return d


def build(name, sources, extra=(), compiler='g++'):
    if name in _built:
        return _built[name]
    exe = os.path.join(native_dir(), name)
    cmd = [compiler, '-std=c++20', '-O1', '-g', '-fno-access-control', '-I' + os.path.join(REPO, 'include')] + DEFS + list(extra) + sources + ['-o', exe, '-pthread']
    rc, out = run(cmd, 300)
    if rc != 0:
        _built[name] = (None, out[-2000:])
    else:
        _built[name] = (exe, '')
    return _built[name]


def lock_sources():
    return [os.path.join(REPO, 'src/lock', f) for f in ('pessimistic_lock.cpp', 'optimistic_lock.cpp', 'mcs_lock.cpp')]


def lock_function_of(group):
    g = group.split('.', 1)[1]
    for pat, fn in (('UpgradeToX', 'UpgradeToX'), ('DowngradeToSIX', 'DowngradeToSIX'),
                    ('TryLockSIX', 'TryLockSIX'), ('TryLockS', 'TryLockS'), ('TryLockX', 'TryLockX'),
                    ('PrepareRead', 'PrepareRead'), ('CompositeGuard', 'CompositeGuard'), ('VerifyVersion', 'VerifyVersion'),
                    ('GetVersion', 'GetVersion'), ('OptGuard', 'VerifyVersion'),
                    ('LockSIX', 'LockSIX'), ('LockS', 'LockS'), ('LockX', 'LockX'),
                    ('UnlockSIX', 'SIXGuard'), ('UnlockS', 'SGuard'), ('UnlockX', 'XGuard'),
                    ('SIXGuard', 'SIXGuard'), ('SGuard', 'SGuard'), ('XGuard', 'XGuard')):
        if pat in g:
            return fn
    return None


def replay_lock_state(comp_name, group, tags):
    fn = lock_function_of(group)
    if fn is None:
        return {'reproduced': False, 'detail': 'no native scenario for group %s' % group}
    exe, err = build('lock_replay', [os.path.join(ROOT, 'replay', 'lock_replay.cpp')] + lock_sources())
    if exe is None:
        return {'reproduced': False, 'detail': 'replayer build failed: ' + err}
    tried = []
    for oS in (0, 1, 3):
        for oSIX in (0, 1):
            for ver in ('0', '7', '0xffffffff'):
                cmd = [exe, comp_name, fn, str(oS), str(oSIX), ver]
                rc, out = run(cmd, 30)
                tried.append(' '.join(cmd[1:]))
                if rc == 3:
                    return {'reproduced': False, 'detail': 'native scenario "%s" not implemented for %s' % (fn, comp_name)}
                if rc != 0:
                    return {'reproduced': True, 'command': 'lock_replay ' + ' '.join(cmd[1:]),
                            'input': {'class': comp_name, 'function': fn, 'other_S_holders': oS, 'other_SIX_holder': oSIX, 'version': ver},
                            'observed': out.strip().split('\n')[:12],
                            'how': 'g++ -fno-access-control /verif/replay/lock_replay.cpp /repo/src/lock/*.cpp; the real function was run from the abstract pre-state and its contract evaluated on the real lock word and guards'}
    return {'reproduced': False, 'detail': 'native search over %d abstract pre-states found no failing input' % len(tried), 'tried': tried[:6]}


def attempt(prop, comp, group, ob, rep):
    tags = ob.get('tags', [])
    try:
        if comp.name in ('pess', 'opt', 'mcs'):
            if prop == 'C08' or 'C08' in tags and prop == 'C08':
                import replay_tsan
                return replay_tsan.attempt(comp.name, group.name, ob)
            if comp.name == 'mcs':
                import replay_sched
                r = replay_sched.attempt(prop, comp.name, group.name, ob, rep)
                if r.get('reproduced'):
                    return r
            return replay_lock_state(comp.name, group.name, tags)
        mod = {'zipf': 'replay_zipf', 'idm': 'replay_sched', 'epoch': 'replay_sched', 'epochb': 'replay_sched'}.get(comp.name)
        if mod:
            m = __import__(mod)
            return m.attempt(prop, 'epoch' if comp.name == 'epochb' else comp.name, group.name, ob, rep)
    finally:
        pass
    return {'reproduced': False, 'detail': 'no native replayer registered for this obligation class'}


def cleanup():
    _built.clear()
    shutil.rmtree(os.path.join(ROOT, 'build', 'native', str(os.getpid())), ignore_errors=True)


def replay_file(path):
    rep = json.load(open(path))
    r = rep.get('replay', {})
    print('obligation: %s' % rep.get('failed_obligation'))
    if r.get('reproduced') and r.get('input', {}).get('class'):
        i = r['input']
        out = replay_lock_state(i['class'], rep['group'], [])
        print(json.dumps(out, indent=1))
        cleanup()
        return 1 if out.get('reproduced') else 0
    print(json.dumps(r, indent=1))
    return 0
