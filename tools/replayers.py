"""native replay of verifier counterexamples against the real C++ code (DESIGN.md 2.7)"""
import json
import os
import sys

ROOT = os.path.dirname(os.path.dirname(os.path.abspath(__file__)))


def attempt(prop, comp, group, ob, rep):
    return {'reproduced': False, 'detail': 'no native replayer registered for this obligation class'}


def replay_file(path):
    rep = json.load(open(path))
    print(json.dumps(rep.get('replay', {}), indent=1))
    return 0
