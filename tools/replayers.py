"""native replay of verifier counterexamples against the real C++ code (DESIGN.md 2.7).

Every replayer builds from the CURRENT /repo working tree into /verif/build/native/<pid> and removes it again."""
import json
import os
import re
import shutil
import subprocess
import sys

ROOT = os.path.dirname(os.path.dirname(os.path.abspath(__file__)))
REPO = os.environ.get('VERIF_REPO', '/repo')
DEFS = ['-DDBGROUP_MAX_THREAD_NUM=32', '-DCPP_UTILITY_SPINLOCK_RETRY_NUM=10', '-DCPP_UTILITY_BACKOFF_TIME=10',
        '-DCPP_UTILITY_HAS_SPINLOCK_HINT']
_built = {}


def run(cmd, timeout=120, cwd=None):
    try:
        p = subprocess.run(cmd, capture_output=True, text=True, timeout=timeout, cwd=cwd)
        return p.returncode, p.stdout + p.stderr
    except subprocess.TimeoutExpired as e:
        out = e.stdout.decode() if isinstance(e.stdout, bytes) else (e.stdout or '')
        return 124, out + '\n[timeout after %ds]' % timeout


def native_dir():
    d = os.path.join(ROOT, 'build', 'native', str(os.getpid()))
    os.makedirs(d, exist_ok=True)
    return d


import threading
_build_lock = threading.Lock()


def build(name, sources, extra=(), compiler='g++'):
    # several native groups of one check run in parallel threads and share the replayer binaries: build each one once
    with _build_lock:
        return _build_locked(name, sources, extra, compiler)


def _build_locked(name, sources, extra=(), compiler='g++'):
    if name in _built:
        return _built[name]
    exe = os.path.join(native_dir(), name)
    cmd = [compiler, '-std=c++20', '-O1', '-g', '-fno-access-control', '-I' + os.path.join(REPO, 'include')] + DEFS + list(extra) + sources + ['-o', exe, '-pthread']
    rc, out = run(cmd, 300)
    if rc != 0:
        _built[name] = (None, out[-2000:])
    else:
        _built[name] = (exe, '')
    return _built[name]


def lock_sources():
    return [os.path.join(REPO, 'src/lock', f) for f in ('pessimistic_lock.cpp', 'optimistic_lock.cpp', 'mcs_lock.cpp')]


def lock_function_of(group):
    g = group.split('.', 1)[1]
    for pat, fn in (('UpgradeToX', 'UpgradeToX'), ('DowngradeToSIX', 'DowngradeToSIX'),
                    ('TryLockSIX', 'TryLockSIX'), ('TryLockS', 'TryLockS'), ('TryLockX', 'TryLockX'),
                    ('PrepareRead', 'PrepareRead'), ('CompositeGuard', 'CompositeGuard'), ('VerifyVersion', 'VerifyVersion'),
                    ('GetVersion', 'GetVersion'), ('OptGuard', 'VerifyVersion'),
                    ('LockSIX', 'LockSIX'), ('LockS', 'LockS'), ('LockX', 'LockX'),
                    ('UnlockSIX', 'SIXGuard'), ('UnlockS', 'SGuard'), ('UnlockX', 'XGuard'),
                    ('SIXGuard', 'SIXGuard'), ('SGuard', 'SGuard'), ('XGuard', 'XGuard')):
        if pat in g:
            return fn
    return None


def replay_lock_state(comp_name, group, tags):
    fn = lock_function_of(group)
    if fn is None:
        return {'reproduced': False, 'detail': 'no native scenario for group %s' % group}
    exe, err = build('lock_replay', [os.path.join(ROOT, 'replay', 'lock_replay.cpp')] + lock_sources())
    if exe is None:
        return {'reproduced': False, 'detail': 'replayer build failed: ' + err}
    tried = []
    for oS in (0, 1, 3):
        for oSIX in (0, 1):
            for ver in ('0', '7', '0xffffffff'):
                cmd = [exe, comp_name, fn, str(oS), str(oSIX), ver]
                rc, out = run(cmd, 30)
                tried.append(' '.join(cmd[1:]))
                if rc == 3:
                    return {'reproduced': False, 'detail': 'native scenario "%s" not implemented for %s' % (fn, comp_name)}
                if rc != 0:
                    return {'reproduced': True, 'command': 'lock_replay ' + ' '.join(cmd[1:]),
                            'input': {'class': comp_name, 'function': fn, 'other_S_holders': oS, 'other_SIX_holder': oSIX, 'version': ver},
                            'observed': out.strip().split('\n')[:12],
                            'how': 'g++ -fno-access-control /verif/replay/lock_replay.cpp /repo/src/lock/*.cpp; the real function was run from the abstract pre-state and its contract evaluated on the real lock word and guards'}
    return {'reproduced': False, 'detail': 'native search over %d abstract pre-states found no failing input' % len(tried), 'tried': tried[:6]}


_lock_search_cache = {}


def lock_search(cls):
    """bounded random search for a failing client program on the real lock class (one run per check and class)"""
    if cls in _lock_search_cache:
        return _lock_search_cache[cls]
    exe, err = build('lock_search', [os.path.join(ROOT, 'replay', 'lock_search.cpp')] + lock_sources(),
                     extra=['-include', os.path.join(ROOT, 'replay', 'atomic_shim.hpp'), '-I' + os.path.join(ROOT, 'replay')])
    if exe is None:
        res = {'reproduced': False, 'detail': 'lock_search build failed: ' + err}
    else:
        seed = int(os.environ.get('VERIF_SEED', '0') or 0) + 1
        res = {'reproduced': False, 'detail': 'lock_search %s: no failing client program within the budget' % cls}
        for sd in (seed, seed + 1):
            rc, out = run([exe, cls, str(sd), '10'], 100)
            if rc == 1:
                res = {'reproduced': True, 'command': 'lock_search %s %d 10' % (cls, sd), 'input': {'class': cls, 'search_seed': sd},
                       'observed': [l[:400] for l in out.split('\n') if l.strip()][:6],
                       'how': 'bounded random search on the unmodified sources (g++ -include /verif/replay/atomic_shim.hpp /verif/replay/lock_search.cpp /repo/src/lock/*.cpp): '
                              'seeded random client programs of 3-5 threads with a random perturbation at every atomic operation, judged by the statements of '
                              'C01/C02/C03/C07/C10/C13; the failing run found may exercise the defect through another clause than the failed obligation'}
                break
    _lock_search_cache[cls] = res
    return res


def attempt(prop, comp, group, ob, rep):
    tags = ob.get('tags', [])
    try:
        if comp.name in ('pess', 'opt', 'mcs'):
            if prop == 'C08' or 'C08' in tags and prop == 'C08':
                import replay_tsan
                return replay_tsan.attempt(comp.name, group.name, ob)
            if comp.name == 'mcs':
                import replay_sched
                r = replay_sched.attempt(prop, comp.name, group.name, ob, rep)
                if r.get('reproduced'):
                    return r
            r = replay_lock_state(comp.name, group.name, tags)
            if not r.get('reproduced'):
                r2 = dict(lock_search(comp.name))
                if r2.get('reproduced'):
                    r2['abstract_state_search'] = r.get('detail')
                    return r2
            return r
        mod = {'zipf': 'replay_zipf', 'idm': 'replay_sched', 'epoch': 'replay_sched', 'epochb': 'replay_sched'}.get(comp.name)
        if mod:
            m = __import__(mod)
            return m.attempt(prop, 'epoch' if comp.name == 'epochb' else comp.name, group.name, ob, rep)
    finally:
        pass
    return {'reproduced': False, 'detail': 'no native replayer registered for this obligation class'}


def cleanup():
    _built.clear()
    _lock_search_cache.clear()
    shutil.rmtree(os.path.join(ROOT, 'build', 'native', str(os.getpid())), ignore_errors=True)


def replay_file(path):
    rep = json.load(open(path))
    r = rep.get('replay', {})
    print('obligation: %s' % rep.get('failed_obligation'))
    i = r.get('input', {})
    if r.get('reproduced') and i.get('scenario'):
        import replay_sched
        sc, k = i['scenario'], int(i.get('DBGROUP_MAX_THREAD_NUM', 4))
        if 'seed' in i:
            exe, err = replay_sched.build_search(k)
            cmd = [exe, sc, str(i['seed']), '12']
        else:
            exe, err = replay_sched.build(k)
            cmd = [exe, sc]
        if exe is None:
            print('replayer build failed: ' + err)
            return 0
        rc, out = run(cmd, 150)
        print(out.strip()[-3000:])
        cleanup()
        return 1 if rc == 1 else 0
    if r.get('reproduced') and i.get('class') and 'search_seed' in i:
        _lock_search_cache.clear()
        os.environ['VERIF_SEED'] = str(int(i['search_seed']) - 1)
        out = lock_search(i['class'])
        print(json.dumps(out, indent=1))
        cleanup()
        return 1 if out.get('reproduced') else 0
    if r.get('reproduced') and i.get('class'):
        out = replay_lock_state(i['class'], rep['group'], [])
        print(json.dumps(out, indent=1))
        cleanup()
        return 1 if out.get('reproduced') else 0
    print(json.dumps(r, indent=1))
    return 0
