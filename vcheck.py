#!/usr/bin/env python3
"""vcheck: contract-based deductive verification driver for cpp-utility.

  python3 /verif/vcheck.py --property C07 --tier quick|thorough
  python3 /verif/vcheck.py --replay /verif/replay/C07/<file>.json

exit 0: every obligation of the property discharged (modulo listed known findings)
exit 1: an unlisted obligation failed (one "VIOLATION property=<id> replay=<path>" line each)
exit 2: infrastructure problem (extraction, solver timeout, vacuous contract, ...) -- never a verdict
"""
import argparse
import concurrent.futures
import glob
import hashlib
import json
import os
import re
import shutil
import subprocess
import sys
import time

ROOT = os.path.dirname(os.path.abspath(__file__))
sys.path.insert(0, os.path.join(ROOT, 'tools'))
import cxx2c  # noqa: E402
import spec as specmod  # noqa: E402

REPO = os.environ.get('VERIF_REPO', '/repo')
BUILD = os.path.join(ROOT, 'build')
DEFS = ['DBGROUP_MAX_THREAD_NUM=7919', 'CPP_UTILITY_SPINLOCK_RETRY_NUM=10', 'CPP_UTILITY_BACKOFF_TIME=10',
        'CPP_UTILITY_HAS_SPINLOCK_HINT']
CBMC_CHECKS = ['--bounds-check', '--pointer-check', '--signed-overflow-check', '--unsigned-overflow-check',
               '--conversion-check', '--div-by-zero-check', '--pointer-overflow-check']
EXTRACTION_DROPS = [
    'bodies of standard-library and libm functions (replaced by the stub contracts = assumed contracts on dependencies)',
    'CPP_UTILITY_SPINLOCK_HINT (_mm_pause) and sleep_for (no effect on shared state)',
    'hardware memory-model behaviour: operations on one atomic object act on the latest value; memory_order arguments are kept and interpreted by the ghost view model (C08) only',
    'alignas, [[nodiscard]], noexcept, constexpr, access specifiers; references become pointers; constructors return the object by value (guaranteed copy elision)',
    'pointer<->integer bit_cast is a C cast',
    'exceptions other than the explicit throw statements (vector::at/array::at range errors become assertions; bad_alloc ignored)',
]


class Infra(Exception):
    pass


def sh(cmd, timeout, mem_gb=12, cwd=None):
    pre = 'ulimit -v %d; ' % (mem_gb * 1024 * 1024)
    t0 = time.time()
    try:
        p = subprocess.run(['bash', '-c', pre + cmd], capture_output=True, text=True, timeout=timeout, cwd=cwd)
        return p.returncode, p.stdout, p.stderr, time.time() - t0
    except subprocess.TimeoutExpired as e:
        return 124, (e.stdout or b'').decode() if isinstance(e.stdout, bytes) else (e.stdout or ''), 'TIMEOUT', time.time() - t0


# ----------------------------------------------------------------------------
# components
# ----------------------------------------------------------------------------

def load_components():
    comps = {}
    for p in sorted(glob.glob(os.path.join(ROOT, 'contracts', '*.spec'))):
        c = specmod.parse_spec(p)
        c.path = p
        comps[c.name] = c
    return comps


def conditional_directives(repo=None):
    """every #if/#ifdef/#ifndef/#elif of the library's own sources except include guards: only the configuration of
    THIS machine is extracted and verified, so a conditional the contracts were not written against (an architecture
    branch with other memory orders, ...) makes the check undecided"""
    repo = repo or REPO
    found = []
    for top in ('src', 'include'):
        for dp, dn, fn in os.walk(os.path.join(repo, top)):
            for f in sorted(fn):
                if not f.endswith(('.hpp', '.cpp', '.h', '.cc', '.ipp', '.inc')):
                    continue
                path = os.path.join(dp, f)
                try:
                    lines = open(path, errors='replace').read().splitlines()
                except OSError:
                    continue
                for i, l in enumerate(lines):
                    m = re.match(r'\s*#\s*(if|ifdef|ifndef|elif)\b\s*(.*?)\s*(//.*)?$', l)
                    if not m:
                        continue
                    if m.group(1) == 'ifndef' and i + 1 < len(lines) and re.match(r'\s*#\s*define\s+%s\b' % re.escape(m.group(2)), lines[i + 1]):
                        continue   # include guard
                    found.append('%s: #%s %s' % (os.path.relpath(path, repo), m.group(1), ' '.join(m.group(2).split())))
    return sorted(found)


def new_conditionals():
    try:
        base = json.load(open(os.path.join(ROOT, 'contracts', 'signatures.json'))).get('#conditionals')
    except Exception:
        base = None
    if base is None:
        return []
    return [c for c in conditional_directives() if c not in base]


def build_component(comp, workdir):
    """extract the TU from the current /repo tree and splice the contracts"""
    os.makedirs(workdir, exist_ok=True)
    src = os.path.join(REPO, comp.source)
    t0 = time.time()
    extra = []
    if comp.driver_tu:
        # a TU under /verif that only #includes the real source and explicitly instantiates member templates
        src_tu = os.path.join(ROOT, comp.driver_tu)
        extra = ['-DVERIF_REPO_SRC="%s"' % src]
    else:
        src_tu = src
    try:
        defs = list(DEFS)
        for ed in getattr(comp, 'extract_defines', []):
            # a component may fix a build-time constant to a concrete value (bounded stand-ins with a concrete capacity)
            defs = [d for d in defs if d.split('=')[0] != ed.split('=')[0]] + [ed]
        text, meta = cxx2c.extract(src_tu, [os.path.join(REPO, 'include'), REPO], defs, comp.symbolic, extra)
    except cxx2c.ExtractError as ex:
        raise Infra('extraction of %s failed: %s' % (comp.source, ex))
    raw_text = text
    dropped = []
    cfile = os.path.join(workdir, comp.name + '.c')
    for _attempt in range(6):
        text, tagmap, missing, missing_l = specmod.splice(raw_text, comp, dropped)
        open(cfile, 'w').write(text)
        # does the annotated text still compile?  A contract that names something that no longer exists (a removed
        # parameter, a renamed local in a loop invariant) must not take the other contracts of the component down with it
        probe = os.path.join(workdir, comp.name + '_probe.c')
        open(probe, 'w').write('#include "%s"\n' % cfile)
        rc, out, err, dt = sh('goto-cc %s -I%s/stubs -c %s -o %s.gb' % (' '.join('-D' + d for d in comp.defines), ROOT, probe, probe), 120)
        if rc == 0:
            break
        bad = [f for f in re.findall(r"In function '(\w+)':", err + out) if (f in comp.functions or any(k[0] == f for k in comp.loops)) and f not in dropped]
        if not bad:
            break   # not attributable to one contract: the groups report the compiler message
        dropped.append(bad[0])
    meta['dropped_contracts'] = list(dropped)
    # functions that did not exist when the contracts were written, have no contract and are not called from any other
    # extracted function: nothing checks them (a new public member can break a property on its own)
    meta['unchecked_new_functions'] = []
    try:
        base = json.load(open(os.path.join(ROOT, 'contracts', 'signatures.json'))).get(comp.name + '#functions')
    except Exception:
        base = None
    try:
        base_st = json.load(open(os.path.join(ROOT, 'contracts', 'signatures.json'))).get(comp.name + '#statics')
    except Exception:
        base_st = None
    meta['new_conditionals'] = new_conditionals()
    meta['new_statics'] = sorted(x for x in meta.get('storage', {}) if base_st is not None and x not in base_st)
    if base is not None:
        bodies = {m.group(1): m.group(2) for m in re.finditer(r'^/\*@FUNC (\w+)\*/\n[^\n]*\n(.*?)^\}\n', raw_text, re.M | re.S)}
        for f in bodies:
            if f in base or f in comp.functions or any(g.enforce == f for g in comp.groups):
                continue
            if not any(re.search(r'\b%s\(' % re.escape(f), b) for f2, b in bodies.items() if f2 != f):
                meta['unchecked_new_functions'].append(f)
    meta['missing_contracts'] = []
    if missing or missing_l:
        # a contract whose function/loop no longer exists is undecided (exit 2), never a verdict; the remaining
        # contracts are still checked so that a violation elsewhere is reported
        meta['missing_contracts'] = sorted(set(missing) | set('%s#loop%d' % k for k in missing_l))
    meta['tagmap'] = tagmap
    meta['cfile'] = cfile
    meta['extract_s'] = time.time() - t0
    # signatures for automatic harnesses
    sigs = {}
    for m in re.finditer(r'^/\*@FUNC (\w+)\*/\n(.*)$', text, re.M):
        sigs[m.group(1)] = m.group(2)
    meta['sigs'] = sigs
    return meta


def auto_harness(comp, g, meta):
    f = g.enforce
    sig = meta['sigs'].get(f)
    if sig is None:
        raise Infra('group %s: enforced function %s was not extracted' % (g.name, f))
    m = re.match(r'^(.*?)\b%s\((.*)\)$' % re.escape(f), sig)
    ret, params = m.group(1).strip(), m.group(2).strip()
    body = ['  HARNESS_PROLOGUE;']
    args = []
    if params != 'void':
        for i, p in enumerate(params.split(',')):
            p = p.strip()
            pm = re.match(r'^(.*?)(\w+)$', p)
            ty, nm = pm.group(1).strip(), pm.group(2)
            if ty.endswith('*'):
                base = ty[:-1].strip()
                macro = 'HARNESS_PTR_' + re.sub(r'\W', '_', base)
                body.append('#ifdef %s' % macro)
                body.append('  %s a%d = %s;' % (ty, i, macro))
                body.append('#else')
                body.append('  %s o%d; %s a%d = &o%d;' % (base, i, ty, i, i))
                body.append('#ifdef HARNESS_INIT_%s' % re.sub(r'\W', '_', base))
                body.append('  HARNESS_INIT_%s(o%d);' % (re.sub(r'\W', '_', base), i))
                body.append('#endif')
                body.append('#endif')
            else:
                body.append('  %s a%d;' % (ty, i))
            args.append('a%d' % i)
    body.append('  %s(%s);' % (f, ', '.join(args)))
    return body


def write_harness(comp, g, meta, workdir, suffix=''):
    hname = 'h_' + re.sub(r'\W', '_', g.name) + suffix
    body = g.harness if g.harness else auto_harness(comp, g, meta)
    lines = ['#include "%s"' % os.path.basename(meta['cfile']), '', 'void %s(void)' % hname, '{']
    lines += body
    lines += ['  __CPROVER_assert(0, "[VACUITY] end of harness reachable (must fail)");', '}', '']
    path = os.path.join(workdir, hname + '.c')
    open(path, 'w').write('\n'.join(lines))
    return hname, path


# ----------------------------------------------------------------------------
# one obligation group
# ----------------------------------------------------------------------------

def backend_flags(name):
    if name == 'sat':
        return []
    if name == 'kissat':
        return ['--external-sat-solver', 'kissat']
    if name == 'cvc5':
        return ['--cvc5']
    if name == 'z3':
        return ['--z3']
    raise Infra('unknown back end %s' % name)


def run_group(comp, g, meta, workdir, tier, backend=None, secondary=False):
    t0 = time.time()
    res = {'group': g.name, 'component': comp.name, 'enforce': g.enforce, 'replace': g.replace, 'level': g.level,
           'backend': backend or g.backend, 'obligations': [], 'infra': None, 'solver_s': 0.0, 'secondary': secondary}
    if g.native:
        import native_checks
        try:
            res['obligations'] = native_checks.run(g.native, tier, int(os.environ.get('VERIF_SEED', '0') or 0))
        except Exception as ex:
            res['infra'] = 'native check failed to run: %r' % ex
        res['solver_s'] = time.time() - t0
        res['backend'] = 'native'
        return res
    try:
        hname, hpath = write_harness(comp, g, meta, workdir, '_2' if secondary else '')
    except Infra as ex:
        res['infra'] = str(ex)
        return res
    base = os.path.join(workdir, hname)
    defs = ' '.join('-D' + d for d in comp.defines)
    tmo = g.timeout or (600 if tier == 'quick' else 1800)
    if meta.get('missing_contracts') or meta.get('dropped_contracts'):
        tmo = min(tmo, 120)   # some loop has probably lost its contract: do not wait long before the bounded fall-back
    if secondary:
        tmo = min(tmo, 300)   # the cross-check is advisory: a timeout there is reported, not waited for
    rc, out, err, dt = sh('goto-cc %s -I%s/stubs --function %s %s -o %s.a.gb' % (defs, ROOT, hname, hpath, base), 120)
    if rc != 0:
        res['infra'] = 'goto-cc failed: ' + (err or out)[-1500:]
        return res
    gi = ['goto-instrument', '--dfcc', hname]
    gone = set(meta.get('missing_contracts', []))
    if g.enforce:
        if g.enforce in meta.get('dropped_contracts', []):
            res['infra'] = 'the contract of %s no longer compiles against the current code (signature or locals changed?)' % g.enforce
            return res
        if g.enforce in gone or g.enforce not in meta['sigs']:
            res['infra'] = 'enforced function %s is no longer extracted (renamed or removed?)' % g.enforce
            return res
        gi += ['--enforce-contract', g.enforce]
    for r in g.replace:
        if r in gone or r not in meta['sigs']:
            continue   # the callee no longer exists, so there is no call to replace
        gi += ['--replace-call-with-contract', r]
    if not g.no_loop_contracts:
        gi += ['--apply-loop-contracts']
    gi += [base + '.a.gb', base + '.b.gb']
    if g.enforce or g.replace:
        rc, out, err, dt = sh(' '.join(gi), 300)
        res['instrument_log'] = (out + err)[-3000:]
        if rc != 0:
            res['infra'] = 'goto-instrument failed: ' + (err + out)[-1500:]
            return res
    else:
        shutil.copy(base + '.a.gb', base + '.b.gb')   # pure lemma group: nothing to instrument
    checks = [c for c in CBMC_CHECKS if c not in getattr(comp, 'nochecks', [])]
    flags = checks + ['--json-ui', '--trace'] + backend_flags(backend or g.backend) + g.flags
    if g.unwind:
        flags += ['--unwind', str(g.unwind), '--unwinding-assertions']
    if g.object_bits:
        flags += ['--object-bits', str(g.object_bits)]
    rc, out, err, dt = sh('cbmc %s %s.b.gb' % (' '.join(flags), base), tmo)
    res['solver_s'] = dt
    if rc == 124:
        res['infra'] = 'solver timeout after %ds (back end %s)' % (tmo, res['backend'])
        if (meta.get('missing_contracts') or meta.get('dropped_contracts')) and not secondary and not g.unwind:
            # A contract of this component no longer fits the code, so some loop is probably left without a contract.
            # Bounded fall-back (labelled as such, never a proof): unwind every such loop 3 times, paths beyond are cut.
            # A tagged obligation that fails inside the bound fails on a real path of the extracted code and is reported;
            # if none fails the group stays undecided.
            rc2, out2, err2, dt2 = sh('cbmc %s --unwind 3 %s.b.gb' % (' '.join(flags), base), 240)
            res['solver_s'] += dt2
            try:
                result2 = [m['result'] for m in json.loads(out2) if 'result' in m][0]
            except Exception:
                result2 = None
            if result2 is not None:
                res['infra'] += '; bounded fall-back (unwind 3, no unwinding assertions): '
                fails = []
                for r in result2:
                    desc = r.get('description', '')
                    tags = re.findall(r'\[([^\]]+)\]', re.match(r'^((?:\[[^\]]+\])*)', desc).group(1))
                    loc = r.get('sourceLocation', {})
                    if not tags and os.path.basename(loc.get('file', '')) == os.path.basename(meta['cfile']) and loc.get('line'):
                        tags = meta['tagmap'].get(int(loc['line']), [])
                    if r.get('status') == 'FAILURE' and any(re.match(r'^C\d\d$', t) for t in tags):
                        ob = {'name': r.get('property'), 'description': desc, 'status': 'FAILURE', 'tags': tags, 'function': loc.get('function'),
                              'line': loc.get('line'), 'file': os.path.basename(loc.get('file', '')), 'bounded_fallback': True}
                        if 'trace' in r:
                            ob['trace'] = compact_trace(r['trace'])
                        fails.append(ob)
                res['fallback_failures'] = fails
                res['infra'] += ('%d tagged obligation(s) fail within the bound' % len(fails)) if fails else 'no tagged obligation fails within the bound'
        return res
    try:
        msgs = json.loads(out)
    except Exception:
        res['infra'] = 'cbmc output not parseable (rc=%d): %s' % (rc, (out + err)[-1500:])
        return res
    log_text = []
    result = None
    for m in msgs:
        if 'messageText' in m:
            log_text.append(m['messageText'])
        if 'result' in m:
            result = m['result']
    logs = '\n'.join(log_text)
    res['log_tail'] = logs[-1500:]
    if re.search(r'ignoring|Parse Error|unsound', logs):
        res['infra'] = 'suspicious verifier log: ' + re.search(r'.*(ignoring|Parse Error|unsound).*', logs).group(0)
        return res
    if result is None:
        res['infra'] = 'cbmc produced no result list (rc=%d): %s' % (rc, logs[-1500:])
        return res
    tagmap = meta['tagmap']
    cbase = os.path.basename(meta['cfile'])
    for r in result:
        desc = r.get('description', '')
        loc = r.get('sourceLocation', {})
        tags = re.findall(r'\[([^\]]+)\]', re.match(r'^((?:\[[^\]]+\])*)', desc).group(1))
        if not tags and os.path.basename(loc.get('file', '')) == cbase and loc.get('line'):
            tags = tagmap.get(int(loc['line']), [])
        ob = {'name': r.get('property'), 'description': desc, 'status': r.get('status'), 'tags': tags,
              'function': loc.get('function'), 'line': loc.get('line'), 'file': os.path.basename(loc.get('file', ''))}
        if r.get('status') == 'FAILURE' and 'trace' in r:
            ob['trace'] = compact_trace(r['trace'])
        res['obligations'].append(ob)
    res['wall_s'] = time.time() - t0
    return res


def compact_trace(trace):
    out = []
    for st in trace:
        t = st.get('stepType')
        loc = st.get('sourceLocation', {})
        if t == 'assignment':
            lhs = st.get('lhs', '')
            if lhs.startswith('__CPROVER') or 'contracts' in loc.get('function', '') or lhs.startswith('tmp_') or '$' in lhs or lhs.startswith('return_value'):
                continue
            v = st.get('value', {})
            val = v.get('data', v.get('name'))
            if val is None and 'members' in v:
                val = {mm.get('name'): mm.get('value', {}).get('data') for mm in v['members']}
            out.append({'step': 'assign', 'lhs': lhs, 'value': val, 'function': loc.get('function'), 'line': loc.get('line')})
        elif t == 'function-call':
            fn = st.get('function', {}).get('displayName')
            if fn and not fn.startswith('__CPROVER'):
                out.append({'step': 'call', 'function': fn})
        elif t == 'failure':
            out.append({'step': 'failure', 'reason': st.get('reason'), 'property': st.get('property'), 'function': loc.get('function'), 'line': loc.get('line')})
    return out[-400:]


# ----------------------------------------------------------------------------
# verdicts
# ----------------------------------------------------------------------------

def obligation_belongs(ob, g, prop):
    ptags = [t for t in ob['tags'] if re.match(r'^C\d\d$', t)]
    if ptags:
        return prop in ptags
    return prop in g.properties


def ob_key(ob):
    """stable identity of an obligation inside its group"""
    tags = ''.join('[%s]' % t for t in ob['tags'])
    if tags:
        return tags
    d = re.sub(r'\s+', ' ', ob['description'])
    return '%s|%s' % (ob['function'] or '', d)


def load_known():
    p = os.path.join(ROOT, 'known_findings.json')
    if not os.path.exists(p):
        return {'findings': [], 'fixed': []}
    return json.load(open(p))


def main():
    ap = argparse.ArgumentParser()
    ap.add_argument('--property')
    ap.add_argument('--tier', default=os.environ.get('VERIF_TIER', 'quick'))
    ap.add_argument('--group', action='append', help='restrict to these groups (debugging)')
    ap.add_argument('--replay')
    ap.add_argument('--keep', action='store_true')
    ap.add_argument('--list', action='store_true')
    ap.add_argument('-v', action='store_true')
    ap.add_argument('--debug', action='store_true', help='only list failing obligations')
    a = ap.parse_args()
    seed = int(os.environ.get('VERIF_SEED', '0') or 0)
    if a.replay:
        import replayers
        sys.exit(replayers.replay_file(a.replay))
    comps = load_components()
    if a.list:
        for c in comps.values():
            for g in c.groups:
                print(c.name, g.name, ' '.join(g.properties), g.level)
        return 0
    prop = a.property
    t_start = time.time()
    workdir = os.path.join(BUILD, 'run_%s_%d' % (prop, os.getpid()))
    shutil.rmtree(workdir, ignore_errors=True)
    os.makedirs(workdir)
    # temporary files of the compilers and solvers (cbmc's external-SAT CNF files are 60 MB each and stay behind when a
    # solver is killed at its timeout) go to the run directory, which is removed at the end of the run
    os.makedirs(os.path.join(workdir, 'tmp'))
    os.environ['TMPDIR'] = os.path.join(workdir, 'tmp')
    infra = []
    results = []
    deferred = []
    metas = {}
    try:
        todo = []
        for c in comps.values():
            gs = [g for g in c.groups if prop in g.properties and (not a.group or g.name in a.group)]
            static_only = gs and all(g.native == 'static_facts' for g in gs)
            if not gs:
                continue
            try:
                metas[c.name] = build_component(c, os.path.join(workdir, c.name))
            except Infra as ex:
                infra.append(str(ex))
                # the bounded native stand-ins do not depend on the extraction: still run them
                metas[c.name] = {'missing_contracts': [], 'sigs': {}, 'tagmap': {}, 'cfile': '', 'static_facts': []}
                gs = [g for g in gs if g.native]
            if metas[c.name].get('new_conditionals'):
                msg = 'conditional compilation the contracts were not written against (only the configuration of this machine is extracted and verified): %s' % (
                    '; '.join(metas[c.name]['new_conditionals']))
                if msg not in infra:
                    infra.append(msg)
            if metas[c.name].get('new_statics'):
                infra.append('%s: new object(s) with static or thread storage duration that no contract knows (hidden state shared between calls, objects or threads?): %s' % (
                    c.name, ', '.join(metas[c.name]['new_statics'])))
            if metas[c.name].get('unchecked_new_functions'):
                infra.append('%s: new function(s) without a contract and without a caller in the checked code, so nothing decides what they do to %s: %s' % (
                    c.name, prop, ', '.join(metas[c.name]['unchecked_new_functions'])))
            if metas[c.name]['missing_contracts']:
                infra.append('%s: contracts without a matching extracted function/loop (renamed or removed?): %s' % (c.name, ', '.join(metas[c.name]['missing_contracts'])))
            for g in gs:
                if g.native == 'static_facts':
                    continue   # evaluated below from the extraction meta data
                if g.tier == 'thorough' and a.tier != 'thorough' and not a.group:
                    deferred.append(g.name)
                    continue
                todo.append((c, g))
        # Modularity: a group of this property that REPLACES a call by the callee's contract assumes every clause of that
        # contract.  The groups that enforce those callees are run as well ("support groups", also when they are registered
        # for other properties only); a failing obligation there that carries no tag of this property makes the check
        # undecided, because the proof of this property then rests on a contract that does not hold.
        if not a.group:
            have = set(g.name for c, g in todo)
            support = set()
            work = list(todo)
            while work:
                c, g = work.pop()
                for r in g.replace:
                    for g2 in c.groups:
                        if g2.enforce == r and g2.name not in have and not g2.native:
                            if g2.tier == 'thorough' and a.tier != 'thorough':
                                continue
                            have.add(g2.name)
                            support.add(g2.name)
                            todo.append((c, g2))
                            work.append((c, g2))
            for c in comps.values():
                if c.name in metas:
                    metas[c.name]['support_groups'] = sorted(support)
        # static facts required by the specs (storage duration, deleted copy operations): pseudo-obligations
        for c in comps.values():
            m = metas.get(c.name)
            reqs = [r for r in getattr(c, 'static_reqs', []) if prop in r[2]]
            if not reqs or m is None or not m.get('cfile'):
                continue
            obs = []
            for kind, name, props in reqs:
                tags = list(props) + ['static.' + kind]
                if kind == 'thread_local':
                    st = m.get('storage', {}).get(name)
                    ok = st == 'thread_local'
                    desc = '%s %s has thread storage duration (found: %s)' % (''.join('[%s]' % t for t in tags), name, st or 'no such object')
                else:
                    dels = [x for x in m.get('deleted', []) if x.startswith(name + '::')]
                    ok = any('(const' in x and '&)' in x and '::operator=' not in x for x in dels) and any('::operator=' in x and '(const' in x for x in dels)
                    desc = '%s %s is not copyable: copy constructor and copy assignment are deleted (found deleted: %s)' % (''.join('[%s]' % t for t in tags), name, '; '.join(dels) or 'none')
                obs.append({'name': 'static.%s.%s' % (kind, name), 'description': desc, 'status': 'SUCCESS' if ok else 'FAILURE', 'tags': tags,
                            'function': name, 'line': None, 'file': os.path.basename(c.source)})
            obs.append({'name': 'static.vacuity', 'description': '[VACUITY] static facts are evaluated', 'status': 'FAILURE', 'tags': ['VACUITY'], 'function': None, 'line': None, 'file': ''})
            results.append({'group': '%s.static_facts' % c.name, 'component': c.name, 'enforce': None, 'replace': [], 'level': 'proof', 'backend': 'clang-ast',
                            'obligations': obs, 'infra': None, 'solver_s': 0.0, 'secondary': False})
        if not todo and not infra:
            infra.append('no obligation group is registered for %s' % prop)
        with concurrent.futures.ThreadPoolExecutor(max_workers=int(os.environ.get('VERIF_JOBS', '16'))) as ex:
            futs = []
            # extraction fidelity: extracted C (executable stubs) vs. the real library on random call sequences
            import fidelity
            fid_futs = {}
            for cname in sorted(set({'epochb': 'epoch'}.get(c.name, c.name) for c, g in todo if not g.native)):
                if cname in ('pess', 'opt', 'zipf', 'epoch') and not a.group:
                    fid_futs[cname] = ex.submit(fidelity.check, cname, a.tier, seed, os.path.join(workdir, 'fid_' + cname))
            for c, g in todo:
                futs.append(ex.submit(run_group, c, g, metas[c.name], os.path.join(workdir, c.name), a.tier))
                if a.tier == 'thorough' and g.level == 'proof' and not g.native:
                    second = {'sat': 'kissat', 'cvc5': 'sat', 'kissat': 'sat'}.get(g.backend, 'kissat')
                    futs.append(ex.submit(run_group, c, g, metas[c.name], os.path.join(workdir, c.name), a.tier, second, True))
            for f in futs:
                results.append(f.result())
            fid = {}
            for cname, f in fid_futs.items():
                err, nobs = f.result()
                fid[cname] = nobs
                if err:
                    infra.append('extraction fidelity check failed for %s (extractor broken, not a property verdict): %s' % (cname, err))
            for m in metas.values():
                m['fidelity'] = fid
        import verdict
        if a.debug:
            seen = set()
            for r in sorted(results, key=lambda r: -r.get('solver_s', 0))[:8]:
                print('TIME %-40s %.1fs' % (r['group'], r.get('solver_s', 0)))
            for r in results:
                if r['infra']:
                    if r['infra'] not in seen:
                        print('INFRA', r['group'], r['infra'][:600])
                    seen.add(r['infra'])
                bad = [o for o in r['obligations'] if o['status'] != 'SUCCESS' and 'VACUITY' not in o['tags']]
                if bad:
                    print('FAIL %s: %d failing obligations' % (r['group'], len(bad)))
                    shown = set()
                    for o in bad:
                        key = (tuple(o['tags']), o['description'][:60])
                        if key in shown or len(shown) >= (40 if a.v else 6):
                            continue
                        shown.add(key)
                        print('     ', o['name'], o['tags'], o['description'][:120], 'line', o['line'])
            return 0
        rc = verdict.conclude(prop, a.tier, seed, comps, metas, results, infra, t_start, verbose=a.v, deferred=deferred)
    finally:
        if not a.keep:
            shutil.rmtree(workdir, ignore_errors=True)
            try:
                import replayers
                replayers.cleanup()   # build/native/<pid>: the native replay / grid binaries of this run
            except Exception:
                pass
    return rc


if __name__ == '__main__':
    sys.exit(main())
